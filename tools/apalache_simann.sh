#!/bin/bash
# Unbounded-integer inductive proof of SimAnn's AIsObjective /\ PermInv with Apalache (N = 4: about 14 min, 1 core).
# Not part of any registered check: a slower, stronger statement of what TLC checks on finite value sets.
set -e
out=$(mktemp -d /tmp/pyspike_apa_XXXX)
trap 'rm -rf "$out"' EXIT
cd "$(dirname "$0")/../spec/apalache"
timeout 3000 apalache-mc check --init=IndInit --inv=IndInv --next=Next --length=1 --out-dir="$out" SimAnnInd.tla | tail -5

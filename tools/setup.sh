#!/bin/sh
# setup: nothing is installed or fetched; parse every specification module and smoke-run TLC.
set -e
cd "$(dirname "$0")/../spec"
for f in *.tla; do
  java -cp /opt/veriftools/tla/tla2tools.jar:/opt/veriftools/tla/CommunityModules-deps.jar tla2sany.SANY "$f" > /tmp/pyspike_sany.$$ 2>&1 || { cat /tmp/pyspike_sany.$$; rm -f /tmp/pyspike_sany.$$; exit 1; }
done
rm -f /tmp/pyspike_sany.$$
/venv/bin/python -c "import sys; sys.path.insert(0,'/verif/harness'); import impl, pyxshim; pyxshim.build('/repo'); print('pyspike import + pyx shim ok')"
echo "setup ok"

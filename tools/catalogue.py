#!/venv/bin/python
"""Catalogue of hand-written breaking edits (each keeps the 49 tests green on the pinned tree) and a
runner:  tools/catalogue.py [ids...]   applies each edit to /repo, runs the quick check of the
targeted property, restores /repo and records the outcome in /verif/seeded/catalogue.json.
(m10 is behaviour-preserving on inspection: a check must stay silent on it.)"""
import json
import os
import subprocess
import sys

HERE = os.path.dirname(os.path.dirname(os.path.abspath(__file__)))
REPO = "/repo"

SURVIVORS = [
 ("m44","C01","pyspike/cython/python_backend.py",
  "        nu2 = s2[1] - s2[0] if N2 > 1 else t_end-s2[0]\n        index2 = 0\n\n    isi_values[0]",
  "        nu2 = s2[1] - s2[0] if N2 > 2 else t_end-s2[0]\n        index2 = 0\n\n    isi_values[0]"),
 ("m04","C02","pyspike/cython/python_backend.py",
  "        if d_temp > d:\n            return d\n        else:\n            d = d_temp\n        start_index += 1",
  "        if d_temp >= d:\n            return d\n        else:\n            d = d_temp\n        start_index += 1"),
 ("m05","C02","pyspike/cython/python_backend.py",
  "            y_ends[index-1] = 0.0\n            y_starts[index] = 0.0\n            if index1 < N1-1:\n                t_f1 = t1[index1+1]\n                dt_f1 = get_min_dist(t_f1, t2, index2, t_aux2[0], t_aux2[1])",
  "            y_ends[index-1] = 0.0\n            y_starts[index] = 0.0\n            if index1 < N1-1:\n                t_f1 = t1[index1+1]\n                dt_f1 = get_min_dist(t_f1, t2, index2+1, t_aux2[0], t_aux2[1])"),
 ("m45","C03","pyspike/cython/python_backend.py",
  "    true_max = t_end - t_start\n    if max_tau > 0:\n        true_max = min(true_max, 2*max_tau)\n\n    N1 = len(spikes1)\n    N2 = len(spikes2)\n    i = -1\n    j = -1\n    n = 0",
  "    true_max = t_end\n    if max_tau > 0:\n        true_max = min(true_max, 2*max_tau)\n\n    N1 = len(spikes1)\n    N2 = len(spikes2)\n    i = -1\n    j = -1\n    n = 0"),
 ("m47","C04","pyspike/spike_directionality.py",
  "            d = np.sum(d1)\n            c = len(spike_train1.spikes)",
  "            d = np.sum(d1)\n            c = len(spike_train2.spikes)"),
 ("m49","C05","pyspike/spike_sync.py",
  "    if mp == 0.0:\n        return 1.0\n    else:\n        return coincidence/mp",
  "    if mp == 0.0:\n        return 0.0\n    else:\n        return coincidence/mp"),
 ("m67","C18","pyspike/spike_sync.py",
  "    if mp == 0.0:\n        return 1.0\n    else:\n        return coincidence/mp",
  "    return coincidence/mp"),
 ("m62","C06","pyspike/spike_sync.py",
  "    prof_func = partial(spike_sync_profile_bi, max_tau=max_tau)\n    average_prof, M = _generic_profile_multi(spike_trains, prof_func,",
  "    prof_func = partial(spike_sync_profile_bi, max_tau=None)\n    average_prof, M = _generic_profile_multi(spike_trains, prof_func,"),
 ("m51","C07","pyspike/cython/python_backend.py",
  "                t_f2 = t_aux2[1]\n                dt_f2 = dt_p2\n                isi2 = max(t_end-t2[N2-1], t2[N2-1]-t2[N2-2]) if N2 > 1 \\\n                    else t_end-t2[N2-1]\n        index += 1",
  "                t_f2 = t_aux2[1]\n                dt_f2 = dt_p2\n                isi2 = t_end-t2[N2-1]\n        index += 1"),
 ("m52","C08","pyspike/cython/directionality_python_backend.py",
  "def spike_train_order_profile_python(spikes1, spikes2, t_start, t_end,\n                                     max_tau, MRTS=0.):\n    true_max = t_end - t_start",
  "def spike_train_order_profile_python(spikes1, spikes2, t_start, t_end,\n                                     max_tau, MRTS=0.):\n    true_max = t_end"),
 ("m18","C09","pyspike/PieceWiseConstFunc.py",
  "        return PieceWiseConstFunc(self.x, self.y)",
  "        f = PieceWiseConstFunc.__new__(PieceWiseConstFunc); f.x = self.x; f.y = self.y; return f"),
 ("m63","C10","pyspike/PieceWiseConstFunc.py",
  "            return self.integral() / (self.x[-1]-self.x[0])",
  "            return self.integral() / self.x[-1]"),
 ("m55","C11","pyspike/DiscreteFunc.py",
  "            expected_mp = (averaging_window_size+1) * int(self.mp[0])",
  "            expected_mp = (averaging_window_size) * int(self.mp[0])"),
 ("m40","C12","pyspike/cython/cython_profiles.pyx",
  "                    nu1 = fmax(t_end-s1[index1], nu1) if N1 > 1 \\\n                          else t_end-s1[index1]\n            elif",
  "                    nu1 = t_end-s1[index1]\n            elif"),
 ("m24","C13","pyspike/spikes.py",
  "    spike_trains = [SpikeTrain(np.unique(s.spikes), \n                               [s.t_start, s.t_end], \n                               is_sorted=True) for s in spike_trains]",
  "    for s in spike_trains:\n        s.spikes = np.unique(s.spikes)"),
 ("m25","C13","pyspike/spike_sync.py",
  "    if kwargs.get('Reconcile', True):\n        spike_trains = reconcile_spike_trains(spike_trains)\n        kwargs['Reconcile'] = False\n    MRTS, RI = resolve_keywords(**kwargs)\n    if isinstance(MRTS, str):\n        kwargs['MRTS'] = default_thresh(spike_trains)\n\n    if indices is None:",
  "    kwargs['Reconcile'] = False\n    MRTS, RI = resolve_keywords(**kwargs)\n    if isinstance(MRTS, str):\n        kwargs['MRTS'] = default_thresh(spike_trains)\n\n    if indices is None:"),
 ("m27","C14","pyspike/generic.py",
  "        d = dist_function(spike_trains[indices[i]], spike_trains[indices[j]],",
  "        d = dist_function(spike_trains[indices[i]], spike_trains[j],"),
 ("m28","C15","pyspike/generic.py", "        MRTS = 0.  # default", "        MRTS = 1e-3  # default"),
 ("m30","C16","pyspike/cython/python_backend.py",
  "        true_max = min(true_max, 2*max_tau)\n\n    N1 = len(spikes1)\n    N2 = len(spikes2)\n    i = -1\n    j = -1\n    n = 0",
  "        true_max = min(true_max, 4*max_tau)\n\n    N1 = len(spikes1)\n    N2 = len(spikes2)\n    i = -1\n    j = -1\n    n = 0"),
 ("m10","C17","pyspike/cython/python_backend.py",
  "        if j < N2-1 and (j < 0 or spikes2[j] < spikes1[i]):",
  "        if j < N2-1 and (j < 0 or spikes2[j] <= spikes1[i]):"),
 ("m31","C17","pyspike/spike_sync.py",
  "        filtered_spikes = st[coincidences > threshold*(N-1)]",
  "        filtered_spikes = st[coincidences >= threshold*(N-1)]"),
 ("m32","C17","pyspike/spike_sync.py",
  "            removed_spikes = st[coincidences <= threshold*(N-1)]",
  "            removed_spikes = st[coincidences < threshold*(N-1)]"),
 ("m57","C18","pyspike/cython/directionality_python_backend.py",
  "    if N1 + N2 > 0:\n        a[0] = a[1]\n        a[len(a)-1] = a[len(a)-2]\n        mp[0] = mp[1]\n        mp[len(mp)-1] = mp[len(mp)-2]\n    else:\n        a[0] = 1\n        a[1] = 1",
  "    a[0] = a[1]\n    a[len(a)-1] = a[len(a)-2]\n    mp[0] = mp[1]\n    mp[len(mp)-1] = mp[len(mp)-2]\n    mp[0] = mp[0] if N1 + N2 > 0 else 0"),
 ("m58","C18","pyspike/cython/python_backend.py",
  "                t_f1 = t_aux1[1]\n                dt_f1 = dt_p1\n                isi1 = max(t_end-t1[N1-1], t1[N1-1]-t1[N1-2]) if N1 > 1 \\\n                    else t_end-t1[N1-1]\n            if index2 < N2-1:",
  "                t_f1 = t_aux1[1]\n                dt_f1 = dt_p1\n                isi1 = max(t_end-t1[N1-1], t1[N1-1]-t1[N1-2])\n            if index2 < N2-1:"),
 ("m34","C19","pyspike/spikes.py", "                if len(line) > 1:", "                if len(line) > 2:"),
 ("m37","C20","pyspike/psth.py",
  "    for i in range(1, len(spike_trains)):", "    for i in range(1, len(spike_trains)-1):"),
 ("m61","C20","pyspike/psth.py",
  "    bins = np.linspace(spike_trains[0].t_start, spike_trains[0].t_end,\n                       bin_count+1)",
  "    bins = np.linspace(spike_trains[0].t_start, spike_trains[0].t_end,\n                       bin_count+1)\n    bins[-1] -= 1e-9"),
]


def sh(cmd, cwd=None):
    p = subprocess.run(cmd, shell=True, cwd=cwd, stdout=subprocess.PIPE, stderr=subprocess.STDOUT)
    return p.returncode, p.stdout.decode(errors="replace")


def main():
    want = set(sys.argv[1:])
    out_path = os.path.join(HERE, "seeded", "catalogue.json")
    results = json.load(open(out_path)) if os.path.exists(out_path) else {}
    rc, o = sh("git -C %s status --porcelain -- pyspike" % REPO)
    if o.strip():
        print("/repo not clean")
        return 2
    for mid, prop, path, old, new in SURVIVORS:
        if want and mid not in want:
            continue
        full = os.path.join(REPO, path)
        raw = open(full, newline="").read()
        crlf = "\r\n" in raw
        src = raw.replace("\r\n", "\n")
        if src.count(old) != 1:
            results[mid] = {"property": prop, "applied": False, "note": "anchor not found exactly once (the tree has changed: fix commits)"}
            print(mid, "anchor not found")
            continue
        new_src = src.replace(old, new)
        if crlf:
            new_src = new_src.replace("\n", "\r\n")
        try:
            open(full, "w", newline="").write(new_src)
            checks = [p.strip() for p in prop.split(",")]
            res = {}
            for c in checks:
                rc, o = sh("./check %s --tier quick" % c, cwd=HERE)
                first = ""
                lines = o.split("\n")
                for i, l in enumerate(lines):
                    if l.startswith("VIOLATION") and i + 1 < len(lines):
                        first = lines[i + 1].strip()[:300]
                        break
                res[c] = {"exit": rc, "first": first}
                print(mid, c, "exit", rc, first[:160])
            results[mid] = {"property": prop, "file": path, "applied": True, "checks": res,
                            "detected": any(r["exit"] == 1 for r in res.values())}
        finally:
            sh("git -C %s checkout -- ." % REPO)
        json.dump(results, open(out_path, "w"), indent=1)
    return 0


if __name__ == "__main__":
    sys.exit(main())

#!/venv/bin/python
"""Demonstrates that the trace binding binds (DESIGN.md 4.4): recorded executions of the real code are
corrupted in three ways and validated against the trace specifications.
  (a) one logged step field changed      -> rejected step-wise, accepted when TLC infers the steps (hook drift)
  (b) one step event removed             -> same
  (c) the returned breakpoints changed   -> rejected in both modes (a violation)
  (d) two ranks of a Poisson result swapped -> rejected
Writes /verif/seeded/selftest.json; exit 0 iff every outcome is the expected one."""
import copy
import json
import os
import sys

HERE = os.path.dirname(os.path.dirname(os.path.abspath(__file__)))
sys.path.insert(0, os.path.join(HERE, "harness"))
os.environ.setdefault("PYSPIKE_VERIF", "1")


def main():
    import traces
    from ctx import Ctx
    ctx = Ctx("selftest", "quick", 0)
    tr, raw = traces.scan_traces("isi", 12345, 30, T=40, maxsp=10)
    good = [t for t in tr if len(t["events"]) >= 5]
    base = good[0]
    a = copy.deepcopy(base); a["id"] = 1001
    a["events"][2]["nu1"] = a["events"][2]["nu1"] + 1
    b = copy.deepcopy(base); b["id"] = 1002
    del b["events"][2]
    c = copy.deepcopy(base); c["id"] = 1003
    c["x"] = c["x"][:-2] + [c["x"][-1]]
    c["events"][-1]["n"] = c["events"][-1]["n"] - 1
    batch = [base, a, b, c]
    v1 = traces._tlc_traces(ctx, "isi", batch, 40, "selftest step-wise")
    nos = []
    for t in batch:
        t2 = copy.deepcopy(t)
        t2["events"] = [e for e in t["events"] if e["e"].endswith(".ret")]
        t2["nosteps"] = True
        nos.append(t2)
    v2 = traces._tlc_traces(ctx, "isi", nos, 40, "selftest inferred steps")
    ptr, praw = traces.poisson_traces(5, 20)
    bad = traces.selftest_corruption(ptr)
    pv = traces.validate(ctx, ptr[:3] + [bad], praw[:3] + [{"corrupted": True}], "selftest poisson", "selftest")
    out = {
        "unchanged trace": {"stepwise": v1[base["id"]]["accepted"], "inferred": v2[base["id"]]["accepted"], "expected": [True, True]},
        "(a) logged field changed": {"stepwise": v1[1001]["accepted"], "inferred": v2[1001]["accepted"], "expected": [False, True]},
        "(b) step event removed": {"stepwise": v1[1002]["accepted"], "inferred": v2[1002]["accepted"], "expected": [False, True]},
        "(c) returned breakpoints changed": {"stepwise": v1[1003]["accepted"], "inferred": v2[1003]["accepted"], "expected": [False, False]},
        "(d) poisson ranks swapped": {"accepted": pv[bad["id"]], "expected": False},
    }
    ok = all(([r["stepwise"], r["inferred"]] == r["expected"]) if "stepwise" in r else (r["accepted"] == r["expected"]) for r in out.values())
    out["ok"] = ok
    json.dump(out, open(os.path.join(HERE, "seeded", "selftest.json"), "w"), indent=1)
    print(json.dumps(out, indent=1))
    return 0 if ok else 1


if __name__ == "__main__":
    sys.exit(main())

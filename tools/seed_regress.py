#!/venv/bin/python
"""Regression of the detection matrix:  tools/seed_regress.py [id-prefix ...]
Every kept seeded change is applied to a scratch worktree of /repo (removed afterwards) and the quick check(s)
that detected it when it was evaluated are run again against that worktree (VERIF_REPO, private evidence
directory).  A change that is no longer detected is listed in seeded/REGRESSION.json -- the checks were
weakened somewhere and have to be looked at.  /repo itself is not touched."""
import json
import os
import re
import shutil
import subprocess
import sys
import tempfile
import time

VERIF = os.path.dirname(os.path.dirname(os.path.abspath(__file__)))


def sh(cmd, cwd=None, env=None, timeout=7200):
    p = subprocess.run(cmd, shell=True, cwd=cwd, env=env, stdout=subprocess.PIPE, stderr=subprocess.STDOUT, timeout=timeout)
    return p.returncode, p.stdout.decode(errors="replace")


def main():
    prefixes = sys.argv[1:] or ["S"]
    sd = os.path.join(VERIF, "seeded")
    ids = sorted(d for d in os.listdir(sd) if os.path.isfile(os.path.join(sd, d, "patch.diff")) and
                 os.path.isfile(os.path.join(sd, d, "meta.json")) and any(d.startswith(p) for p in prefixes))
    out_path = os.path.join(sd, "REGRESSION.json")
    results = {}
    if os.path.exists(out_path):
        try:
            results = json.load(open(out_path))
        except Exception:
            results = {}
    ev = tempfile.mkdtemp(prefix="pyspike_regr_evid_")
    try:
        # changes whose home check had its keyword settings re-tuned come first
        first = ("C03", "C04", "C07", "C08", "C15", "C16", "C17", "C12", "C05", "C06", "C14", "C18", "C01")

        def rank(sid):
            pr = json.load(open(os.path.join(sd, sid, "meta.json"))).get("property", "")
            return (first.index(pr) if pr in first else len(first), sid)
        for sid in sorted(ids, key=rank):
            if sid in results and results[sid].get("checks") and all(r["exit"] in (0, 1) for r in results[sid]["checks"].values()):
                continue
            meta = json.load(open(os.path.join(sd, sid, "meta.json")))
            det = [c for c, r in (meta.get("check_results") or {}).items() if r.get("exit") == 1]
            if not det:
                det = [meta.get("property")] if meta.get("property") else []
            home = meta.get("property")
            checks = [home] if home in det else det[:1]
            wt = tempfile.mkdtemp(prefix="pyspike_regr_")
            os.rmdir(wt)
            rc, o = sh("git -C /repo worktree add -q --detach %s HEAD" % wt)
            if rc != 0:
                print(sid, "worktree failed", o)
                continue
            try:
                rc, o = sh("git apply %s" % os.path.join(sd, sid, "patch.diff"), cwd=wt)
                if rc != 0:
                    results[sid] = {"applies": False}
                    print(sid, "patch does not apply")
                    continue
                env = dict(os.environ)
                env["VERIF_REPO"] = wt
                env["VERIF_EVID"] = ev
                res = {}
                for c in checks:
                    t0 = time.time()
                    rc, o = sh("./check %s --tier quick" % c, cwd=VERIF, env=env)
                    first = ""
                    lines = o.split("\n")
                    for i, l in enumerate(lines):
                        if (l.startswith("VIOLATION") or l.startswith("MACHINERY")) and i + 1 < len(lines):
                            first = (l + " " + lines[i + 1].strip())[:300]
                            break
                    res[c] = {"exit": rc, "wall_s": round(time.time() - t0, 1), "first": first}
                results[sid] = {"applies": True, "checks": res, "detected": any(r["exit"] == 1 for r in res.values())}
                print(sid, {c: r["exit"] for c, r in res.items()})
                sys.stdout.flush()
            finally:
                sh("git -C /repo worktree remove --force %s" % wt)
                shutil.rmtree(wt, ignore_errors=True)
            json.dump(results, open(out_path, "w"), indent=1, sort_keys=True)
    finally:
        shutil.rmtree(ev, ignore_errors=True)
    lost = sorted(k for k, v in results.items() if v.get("applies") and not v.get("detected"))
    print("regression: %d changes re-run, %d no longer detected: %s" % (len(results), len(lost), lost))
    return 0


if __name__ == "__main__":
    sys.exit(main())

#!/venv/bin/python
"""False-alarm test:  tools/refactor_eval.py <src_dir> <id> <checks,comma> [--suffix 2]
A behaviour-preserving change (patch.diff from an independent sub-agent) is applied to a scratch worktree of
/repo (removed afterwards); the 49 tests must still pass; the listed quick checks are run against that
worktree (VERIF_REPO) with a private evidence directory.  Every check must exit 0.  The outcome is stored
under /verif/seeded/refactors/<id>/."""
import argparse, json, os, re, shutil, subprocess, sys, tempfile, time
VERIF = os.path.dirname(os.path.dirname(os.path.abspath(__file__)))

def sh(cmd, cwd=None, env=None, timeout=7200):
    p = subprocess.run(cmd, shell=True, cwd=cwd, env=env, stdout=subprocess.PIPE, stderr=subprocess.STDOUT, timeout=timeout)
    return p.returncode, p.stdout.decode(errors="replace")

def main():
    ap = argparse.ArgumentParser()
    ap.add_argument("src"); ap.add_argument("rid"); ap.add_argument("checks"); ap.add_argument("--suffix", default="")
    a = ap.parse_args()
    patch = os.path.join(a.src, "patch%s.diff" % a.suffix)
    meta = {}
    mp = os.path.join(a.src, "meta%s.json" % a.suffix)
    if os.path.exists(mp):
        try: meta = json.load(open(mp))
        except Exception: pass
    wt = tempfile.mkdtemp(prefix="pyspike_ref_"); os.rmdir(wt)
    ev = tempfile.mkdtemp(prefix="pyspike_ref_evid_")
    rc, out = sh("git -C /repo worktree add -q --detach %s HEAD" % wt)
    res = {}
    info = {}
    try:
        rc, o = sh("git apply %s" % os.path.abspath(patch), cwd=wt)
        if rc != 0:
            rc, o = sh("git apply --3way %s" % os.path.abspath(patch), cwd=wt); sh("git reset -q", cwd=wt)
        info["patch_applies"] = rc == 0
        rc, o = sh("/venv/bin/python -m pytest -q -p no:cacheprovider --timeout=900 2>&1 | tail -3", cwd=wt)
        m = re.search(r"(\d+) passed", o)
        info["tests_passed"] = int(m.group(1)) if m else 0
        rc, o = sh("git diff --stat -- pyspike | tail -1", cwd=wt); info["diffstat"] = o.strip()
        env = dict(os.environ); env["VERIF_REPO"] = wt; env["VERIF_EVID"] = ev
        for c in a.checks.split(","):
            t0 = time.time()
            rc, o = sh("./check %s --tier quick" % c, cwd=VERIF, env=env)
            first = ""
            lines = o.split("\n")
            for i, l in enumerate(lines):
                if (l.startswith("VIOLATION") or l.startswith("MACHINERY")) and i + 1 < len(lines):
                    first = (l + " " + lines[i + 1].strip())[:500]; break
            drift = ""
            try:
                drift = json.load(open(os.path.join(ev, c + ".json")))["coverage"].get("hook_drift", "")
            except Exception: pass
            res[c] = {"exit": rc, "first": first, "wall_s": round(time.time() - t0, 1), "hook_drift": drift}
            print(c, "exit", rc, "drift", drift, first[:220]); sys.stdout.flush()
    finally:
        sh("git -C /repo worktree remove --force %s" % wt); shutil.rmtree(wt, ignore_errors=True); shutil.rmtree(ev, ignore_errors=True)
    dst = os.path.join(VERIF, "seeded", "refactors", a.rid); os.makedirs(dst, exist_ok=True)
    shutil.copy(patch, os.path.join(dst, "patch.diff"))
    json.dump({"id": a.rid, "origin": "independent sub-agent asked for a behaviour-preserving refactoring", "summary": meta.get("summary"),
               "why_equivalent": meta.get("why_equivalent"), "info": info, "checks": res,
               "silent": all(r["exit"] == 0 for r in res.values())}, open(os.path.join(dst, "meta.json"), "w"), indent=1)
    return 0

if __name__ == "__main__":
    sys.exit(main())

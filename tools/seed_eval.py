#!/venv/bin/python
"""Confirm and register a seeded change:  tools/seed_eval.py <src_dir> <seed_id> <property> [--suffix 2] [--checks C01,C12]

1. in a fresh scratch worktree of /repo (removed afterwards): the demo passes without the patch, the patch
   applies, the unedited test-suite still gives 49 passes, the demo fails with the patch;
2. the patch is applied to /repo itself, the listed checks (default: the property's quick check) are run,
   and /repo is restored straight afterwards;
3. everything is stored under /verif/seeded/<seed_id>/ (patch.diff, demo.py, meta.json with what was run)."""
import argparse
import json
import os
import re
import shutil
import subprocess
import sys
import tempfile
import time

VERIF = os.path.dirname(os.path.dirname(os.path.abspath(__file__)))


def sh(cmd, cwd=None, timeout=3600):
    p = subprocess.run(cmd, shell=True, cwd=cwd, stdout=subprocess.PIPE, stderr=subprocess.STDOUT, timeout=timeout)
    return p.returncode, p.stdout.decode(errors="replace")


def main():
    ap = argparse.ArgumentParser()
    ap.add_argument("src")
    ap.add_argument("seed_id")
    ap.add_argument("prop")
    ap.add_argument("--suffix", default="")
    ap.add_argument("--checks", default=None)
    ap.add_argument("--tier", default="quick")
    a = ap.parse_args()
    sfx = a.suffix
    patch = os.path.join(a.src, "patch%s.diff" % sfx)
    demo = os.path.join(a.src, "demo%s.py" % sfx)
    meta_src = os.path.join(a.src, "meta%s.json" % sfx)
    for f in (patch, demo):
        if not os.path.exists(f):
            print("missing", f)
            return 2
    meta = {}
    if os.path.exists(meta_src):
        try:
            meta = json.load(open(meta_src))
        except Exception as e:
            meta = {"meta_unreadable": str(e)}
    wt = tempfile.mkdtemp(prefix="pyspike_seed_")
    os.rmdir(wt)
    rc, out = sh("git -C /repo worktree add -q --detach %s HEAD" % wt)
    if rc != 0:
        print(out)
        return 2
    confirmed = {}
    try:
        shutil.copy(demo, os.path.join(wt, "demo.py"))
        rc0, o0 = sh("/venv/bin/python demo.py", cwd=wt, timeout=600)
        confirmed["demo_without_patch_exit"] = rc0
        rc, o = sh("git apply %s" % os.path.abspath(patch), cwd=wt)
        if rc != 0:
            # the patch was written against an earlier HEAD (before the hook commit): three-way apply, then
            # regenerate it against the current HEAD
            rc, o = sh("git apply --3way %s" % os.path.abspath(patch), cwd=wt)
            confirmed["applied_3way"] = rc == 0
            sh("git reset -q", cwd=wt)
        confirmed["patch_applies"] = rc == 0
        if rc != 0:
            print("patch does not apply:\n" + o)
        else:
            rc2, newp = sh("git diff -- pyspike", cwd=wt)
            regen = os.path.join(tempfile.gettempdir(), "pyspike_seed_%s.diff" % a.seed_id)
            with open(regen, "w") as f:
                f.write(newp)
            patch = regen
        rc, o = sh("/venv/bin/python -m pytest -q -p no:cacheprovider --timeout=900 2>&1 | tail -3", cwd=wt, timeout=1800)
        m = re.search(r"(\d+) passed", o)
        f = re.search(r"(\d+) failed", o)
        confirmed["tests_passed"] = int(m.group(1)) if m else 0
        confirmed["tests_failed"] = int(f.group(1)) if f else 0
        confirmed["only_known_failure"] = "test_regression_random" in o and confirmed["tests_failed"] == 1
        rc1, o1 = sh("/venv/bin/python demo.py", cwd=wt, timeout=600)
        confirmed["demo_with_patch_exit"] = rc1
        confirmed["demo_output_with_patch"] = o1[-600:]
    finally:
        sh("git -C /repo worktree remove --force %s" % wt)
        shutil.rmtree(wt, ignore_errors=True)
    ok = (confirmed.get("demo_without_patch_exit") == 0 and confirmed.get("patch_applies") and
          confirmed.get("tests_passed") == 49 and confirmed.get("tests_failed") == 1 and
          confirmed.get("demo_with_patch_exit") not in (0, None))
    confirmed["confirmed"] = bool(ok)
    print(json.dumps({k: v for k, v in confirmed.items() if k != "demo_output_with_patch"}))
    results = {}
    if ok:
        checks = (a.checks or a.prop).split(",")
        rc, o = sh("git -C /repo status --porcelain -- pyspike")
        if o.strip():
            print("/repo has uncommitted changes; refusing to apply")
            return 2
        rc, o = sh("git -C /repo apply %s" % os.path.abspath(patch))
        try:
            if rc != 0:
                print("cannot apply to /repo: " + o)
                return 2
            for c in checks:
                t0 = time.time()
                rc, o = sh("./check %s --tier %s" % (c, a.tier), cwd=VERIF, timeout=7200)
                viol = [l for l in o.split("\n") if l.startswith("VIOLATION")]
                first = ""
                lines = o.split("\n")
                for i, l in enumerate(lines):
                    if l.startswith("VIOLATION") and i + 1 < len(lines):
                        first = lines[i + 1].strip()[:400]
                        break
                results[c] = {"exit": rc, "violations_printed": len(viol), "first": first, "wall_s": round(time.time() - t0, 1),
                              "tier": a.tier}
                print(c, "exit", rc, first[:200])
        finally:
            sh("git -C /repo checkout -- .")
            rc, o = sh("git -C /repo status --porcelain -- pyspike")
            if o.strip():
                print("WARNING: /repo not clean after restore:", o)
    dst = os.path.join(VERIF, "seeded", a.seed_id)
    os.makedirs(dst, exist_ok=True)
    shutil.copy(patch, os.path.join(dst, "patch.diff"))
    shutil.copy(demo, os.path.join(dst, "demo.py"))
    prev = {}
    mp = os.path.join(dst, "meta.json")
    if os.path.exists(mp):
        prev = json.load(open(mp))
    runs = prev.get("check_results", {})
    runs.update(results)
    doc = {"id": a.seed_id, "property": a.prop, "origin": "independent sub-agent given only the property text and a scratch worktree",
           "summary": meta.get("summary"), "needs": meta.get("needs"), "why_tests_pass": meta.get("why_tests_pass"),
           "files": meta.get("files"), "confirmation": confirmed,
           "what_was_run": "scratch worktree: demo without patch, git apply, pytest (49 stable tests), demo with patch; then git -C /repo apply, "
                           "./check <id> --tier <tier>, git -C /repo checkout -- .",
           "check_results": runs,
           "detected_by": sorted(c for c, r in runs.items() if r["exit"] == 1)}
    with open(mp, "w") as f:
        json.dump(doc, f, indent=1)
    return 0 if ok else 1


if __name__ == "__main__":
    sys.exit(main())

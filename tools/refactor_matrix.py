#!/usr/bin/env python3
"""seeded/refactors/SILENCE.md from seeded/refactors/*/meta.json"""
import glob, json, os
V = os.path.dirname(os.path.dirname(os.path.abspath(__file__)))
rows = []
runs = silent = 0
for f in sorted(glob.glob(os.path.join(V, "seeded", "refactors", "R-*", "meta.json"))):
    m = json.load(open(f))
    ok = all(r["exit"] == 0 for r in m["checks"].values())
    runs += len(m["checks"])
    silent += ok
    rows.append("| %s | %s | %s | %s | %s |" % (m["id"], "yes" if ok else "NO: " + ", ".join("%s exit %s" % (c, r["exit"]) for c, r in m["checks"].items() if r["exit"] != 0),
                                            m["info"].get("diffstat", ""), ", ".join(sorted(m["checks"])), (m.get("summary") or "")[:160].replace("|", "/").replace("\n", " ")))
out = ["# Behaviour-preserving refactorings: the checks must stay silent", "",
       "| id | silent | diffstat | checks run (quick) | summary |", "|---|---|---|---|---|"] + rows + \
      ["", "%d refactorings, %d silent (%d check runs)." % (len(rows), silent, runs)]
open(os.path.join(V, "seeded", "refactors", "SILENCE.md"), "w").write("\n".join(out) + "\n")
print(out[-1])

#!/venv/bin/python
"""Generates /verif/MANIFEST.json from the table below (kept in one place so that it stays valid)."""
import json, os, sys
HERE = os.path.dirname(os.path.dirname(os.path.abspath(__file__)))
sys.path.insert(0, os.path.join(HERE, "harness"))

CHECKS = {
 "C01": dict(engine="A pair-scan", design_ref="5 C01",
   technique="TLC exhaustive model checking of IsiScan.tla (scan = declarative definition) + replay of every terminal state into both backends and the public API",
   text="TLC enumerates every ordered pair of spike trains on a small integer grid x MRTS, runs the transcribed merge scan step by step in exact rational arithmetic and checks scan = definition (Defs!IsiDef), range, cursor bounds and termination in every state; every terminal state is replayed into isi_distance_python, the transliterated isi_profile_cython and pyspike.isi_profile under five frames (unit scales 2^-40 .. 2^10, far origin 2^30) and compared (breakpoints exactly, values to 1e-10); in addition seeded executions of the hooked python backend on larger random inputs (T=60, <=20 spikes) are validated step by step against IsiTrace.tla (cursors and interval lengths per loop iteration, all IsiScan invariants evaluated on the recorded trace).",
   note="small scope (all subsets of <= 8 grid points, sparse trains on 11 points); floating point judged by tolerance 1e-10; the compiled backend is executed by source transliteration of the .pyx files, not by a C build"),
 "C02": dict(engine="A pair-scan", design_ref="5 C02",
   technique="TLC exhaustive model checking of SpikeScan.tla (scan = declarative definition incl. one-sided limits) + replay of every terminal state into both backends and the public API",
   text="As C01 for the SPIKE profile: the incremental nearest-spike search, the per-train interpolation state and the three loop branches are transcribed; TLC checks equality with the declarative definition (left and right limits at every breakpoint), zero at shared spikes, range, global minimality of the early-exit search; terminal states are replayed into spike_distance_python, spike_profile_cython (transliterated) and pyspike.spike_profile for plain, RI and adaptive variants under five frames; recorded executions on larger random inputs are validated step by step against SpikeTrace.tla.",
   note="small scope; a piecewise-linear profile is compared through its one-sided limits at all breakpoints; tolerance 1e-10; .pyx by transliteration"),
 "C03": dict(engine="A pair-scan", design_ref="5 C03",
   technique="TLC exhaustive model checking of SyncScan.tla / SingleScan.tla against the pairwise coincidence definition + replay into both backends and the public API",
   text="The coincidence set is defined pairwise over all index pairs (Defs!Coinc); TLC checks that the merged-sequence scan marks exactly those spikes, that coincidence is one-to-one and mutual, that the event marked at n-1 is the partner, and that the per-spike indicator scan agrees; terminal states (all pairs x MRTS x max_tau incl. exact dt = tau ties) are replayed into coincidence_python / coincidence_profile_cython / coincidence_single_* and pyspike.spike_sync_profile under five frames (max_tau from below an ISI to beyond the recording); recorded executions on larger random inputs are validated against SyncTrace.tla.",
   note="small scope (dense 6-7 points, sparse 8-10 points with <= 3 spikes); .pyx by transliteration"),
 "C04": dict(engine="A pair-scan + C session", design_ref="5 C04",
   technique="TLC exhaustive model checking of SyncScan.tla (order / directionality observers, swap relation) + replay into kernels and public bivariate API",
   text="Order and directionality are observers of the same scan as C03; TLC checks scan = definition, that swapping the trains negates order profile and directionality, and the accumulators; terminal states are replayed into the order / directionality kernels (both backends), spike_train_order_profile, spike_directionality_values and spike_directionality.",
   note="multivariate part (indices, matrix, synfire indicator) is bound by the session engine; small scope; .pyx by transliteration"),
}
CHECKS.update({
 "C07": dict(engine="A pair-scan (relations)", design_ref="5 C07",
   technique="TLC exhaustive model checking of Relations.tla (Symmetric, Identity, InRange on the definitions) + execution of every exported case on the code under swap / self / copy",
   text="TLC checks on the declarative definitions, for every ordered pair of trains x MRTS x RI x max_tau, that ISI / SPIKE / SPIKE-Sync are symmetric, 0 / 0 / 1 on identical trains, un-normalised self-directionality 0, and all values in range; every TLC state is then executed on the implementation (both backends): f(a,b) vs f(b,a), f(a,a), f(a,copy), range of every profile value and of distances over the whole recording and 4 sub-intervals, also with MRTS='auto'; the range clause on larger inputs is the InRange invariant evaluated by TLC on recorded executions (IsiTrace / SpikeTrace).",
   note="relations on the code are code-vs-code (tolerance 1e-10); scan = definition is C01-C04; small scope; .pyx by transliteration"),
 "C08": dict(engine="A pair-scan (relations)", design_ref="5 C08",
   technique="TLC exhaustive model checking of Relations.tla (ShiftInv, ScaleInv, MirrorSym) + execution of every exported case on the code under the same transformations",
   text="TLC checks on the definitions that integer shifts, integer scale factors (with MRTS and max_tau scaled) and reflection about the midpoint transform only the time axis (mirror: left/right limits exchanged, order negated); every TLC state is executed on the implementation before and after each transformation (plus dyadic factors 1/2, 1/4 and a shift by 1/2) for the four bivariate profiles and five scalar functions, both backends.",
   note="multivariate lists are covered by the session engine; code-vs-code with tolerance 1e-10; small scope"),
 "C15": dict(engine="A pair-scan (relations) + C session", design_ref="5 C15",
   technique="TLC exhaustive model checking of Relations.tla (ZeroIsPlain, Monotone, BelowAllIsNoOp, pooled-ISI definition) + execution of every exported case on the code",
   text="TLC checks on the definitions that MRTS=0 is the plain measure, that ISI / SPIKE values are non-increasing and the coincidence set non-decreasing in MRTS, and that an MRTS below every ISI is a no-op; the pooled inter-spike-interval lengths and their mean square are defined in the spec and exported; the code is run for every ordered pair MRTS1 <= MRTS2, with MRTS omitted vs 0, with MRTS='auto' vs the explicit threshold, and default_thresh is compared with the root of the exported mean square, at two unit scales.",
   note="bivariate forms here, multivariate / matrix forms in the session engine; the irrational threshold is compared as a double; small scope"),
 "C16": dict(engine="A pair-scan (relations)", design_ref="5 C16",
   technique="TLC exhaustive model checking of Relations.tla / SyncScan.tla (TauBounded, CoincGrowsWithTau) + execution of every exported case on all coincidence-based functions",
   text="TLC checks that with max_tau > 0 no pair of spikes max_tau or more apart is in the coincidence set and that the set grows with max_tau (None = unbounded); every TLC state is executed on spike_sync_profile, spike_train_order_profile, spike_directionality_values and filter_by_spike_sync: each spike the code marks coincident must have a partner closer than max_tau, None / 0 / omitted must agree, and marks must persist when max_tau grows; dense and sparse grids so that spikes have neighbours on both sides.",
   note="absolute agreement of the marks with the definition is C03/C04; small scope; two unit scales"),
})
CHECKS.update({
 "C09": dict(engine="B function objects", design_ref="5 C09",
   technique="TLC exhaustive model checking of FuncObjects.tla (heap with ghost denotations; Represents, XIsUnion, OnlyReceiverChanges, Commutes, IntegralLinear) + replay of every transition into real function objects with whole-heap comparison",
   text="A heap of three function objects over every pair of breakpoint patterns with generic piece values; the add routines (merge loop, tail-copy branches, simultaneous end) are transcribed and TLC checks in every reachable state that the concrete arrays denote the ghost linear combination (one-sided limits at every grid point), that breakpoints are the strictly increasing union, that only the receiver changes, that addition commutes and the integral is linear. Every transition (pre-heap, op, post-heap) is replayed on PieceWiseConstFunc / PieceWiseLinFunc under both add backends: the whole heap is compared; an independence probe (scale one object, all others bit-identical) detects shared arrays, a later-operation probe detects state shared between calls, a dtype probe compares integer-built and float-built receivers; three frames (far origin, tiny unit) and integer-constructed breakpoints.",
   note="histories are covered transition-wise from every heap reachable within MaxOps operations (2 quick / 3 thorough); small grids; tolerance 1e-10"),
 "C10": dict(engine="B function objects", design_ref="5 C10",
   technique="TLC exhaustive model checking of FuncQuery.tla (code formula = exact Riemann integral / evaluation rule for every function x query) + replay of every state into integral / avrg / __call__ / get_plottable_data",
   text="The index search (searchsorted right/left), the same-piece and general branches of integral, avrg for one and several intervals, the scalar and the vectorised evaluation path and the plottable arrays are transcribed; TLC checks them against the declarative integral (overlap with every piece), additivity at every split point, full = whole support, the evaluation rule (piece / mean of limits at interior breakpoints / one-sided at the ends). Every state is replayed into the real methods (tuple and list interval forms, scalar and list times) on a support that does not start at 0, at two unit scales.",
   note="all breakpoint patterns of a 5-7 point support, all a<b on the quarter grid, generic values; tolerance 1e-10"),
 "C11": dict(engine="B function objects", design_ref="5 C11",
   technique="TLC exhaustive model checking of FuncObjects.tla (Kind=disc) and FuncQuery.tla (open-interval sums, ratio-or-1, smoothing = unit mean) + replay of every transition / query state into DiscreteFunc",
   text="Discrete add (merge, tails, edge fix-up) is transcribed; TLC checks one entry per distinct event time with summed values / multiplicities (ghost combination), framing edges, and for every function and interval that integral sums exactly the events strictly inside, several intervals add, avrg is the ratio or 1, and that the smoothing loop equals the mean over unit contributions for k = 0,1,2. Transitions and query states are replayed into DiscreteFunc.add / mul_scalar / copy / integral / avrg / get_plottable_data under both add backends.",
   note="events on integer times incl. the edge times; multiplicities 1..3; small grids"),
 "C12": dict(engine="A + B (twins)", design_ref="5 C12",
   technique="replay of the TLC-exported argument tuples of IsiScan / SpikeScan / SyncScan / FuncObjects into both members of each of the 15 routine pairs (python_backend vs transliterated .pyx), single-pass routines vs sums over the profile",
   text="Both implementations are bound to the same L2 specification modules; every terminal state / add transition TLC exports is executed on the pure-Python routine and on the .pyx routine (source-level transliteration with bounds-checked memoryviews and C division) and the two results are compared with each other; the five single-pass routines are compared with the sum / average of the corresponding profile; get_tau is compared for every index pair the scans can request; larger random argument tuples (T=60) are run through both twins; every public bivariate function is executed under both backend configurations (twin_api); the existence of all 15 pairs is checked.",
   note="executes the .pyx source semantics, not a C build: C compilation, int overflow and nogil threading are not covered"),
})
CHECKS.update({
 "C05": dict(engine="C session", design_ref="5 C05",
   technique="TLC model checking of Multi.tla (RouteSEqRouteP: accumulation over pairs = average of the divide-and-conquer profile) + execution of every exported case on the code: scalar function vs avrg(interval) of the profile function",
   text="Multi.tla models the two routes separately as the code does (scalar accumulation over the pair list vs recursive-halving addition of pair profiles with the transcribed add routines, 1/M scaling, interval average); TLC checks their equality for every list, measure and interval (None and sub-intervals with ends on / between breakpoints). Each state is executed on the implementation under both backends (the compiled configuration takes the dedicated single-pass routines): distance(list, interval) vs profile(list).avrg(interval), bivariate, list and indices forms; SPIKE-Sync = 1 when no spike is inside.",
   note="relational (code vs code); N = 2..4 trains, lists sampled from the grid trains by a seeded random subset in the quick tier; tolerance 1e-10"),
 "C06": dict(engine="C session", design_ref="5 C06",
   technique="TLC model checking of Multi.tla (PointwiseMean, PooledEvents, PermInvariant, MatrixIsBivariate) + replay of every state into the multivariate entry points and all list permutations",
   text="TLC checks that the multivariate ISI / SPIKE profile produced by pair generation + recursive halving + add + 1/M is at every grid time (both one-sided limits) the mean of the bivariate definitions, that the multivariate SPIKE-Sync profile carries the summed counts and multiplicities per event time, that results are identical for every permutation of the list and that matrices hold the bivariate values (symmetric, diagonal 0 / 1). Every state is replayed (expected arrays / values; multivariate profiles by denotation) and re-run under permutations of the list on both backends; recorded session-level calls on larger lists (up to 7 trains, T=16) are evaluated by TLC (MultiTrace.tla) and compared.",
   note="N = 3 (all 6 permutations), N = 4 (6 of 24), N = 5 in the thorough tier; lists with empty and repeated trains; small grid"),
 "C13": dict(engine="C session", design_ref="5 C13",
   technique="TLC model checking of Reconcile.tla (ReconcileDef, Idempotent, OrderIrrelevant) over messy trains + replay: reconcile result compared exactly, every public measure on messy input vs on the spec's normal form with Reconcile=False, input snapshots around every call",
   text="Messy trains (any order, repetitions, values outside the edges, per-train edges) are enumerated by TLC; the four steps of reconcile are transcribed and checked against the definition (common interval, strictly increasing, exactly the distinct inputs inside, idempotent, order-irrelevant). Every state is replayed: reconcile_spike_trains(_bi) output compared exactly, returned objects must be fresh (writing to them must not reach the inputs), and each of 23 public entry-point forms is run on the messy input and on the spec's normal form with Reconcile=False under both backends (also with MRTS='auto'); all inputs are snapshotted before and compared after every call. A dedicated configuration probes the 1e-6 slack 20% inside and outside.",
   note="train 1 exhaustive, the others from a seeded random subset; code-vs-code with nan/inf-aware equality for inputs that keep a spike inside the slack but outside the interval"),
 "C14": dict(engine="C session", design_ref="5 C14",
   technique="TLC enumeration (Multi.tla) of every ordered index selection x entry point + execution of all call forms on the code and comparison with each other and with the spec value",
   text="For every list (N = 3, 4), every ordered subset of positions of size >= 2 and every entry point (profiles, scalars, matrices, directionality values / matrix) the spec computes the result on the selected sub-list; the code is called as f(list, indices=idx) (list and numpy indices), f(sub-list), f(*sub-list) and f(a, b), under both backends with interval / max_tau / MRTS / RI set; all forms must agree with each other and with the spec value.",
   note="MRTS numeric here ('auto' depends on the list handed over and is compared per form in C15); lists sampled by a seeded random subset"),
 "C17": dict(engine="C session", design_ref="5 C17",
   technique="TLC model checking of Multi.tla (FilterPartition, FilterEqualsProfile) + replay of every state into filter_by_spike_sync and relational checks on the code",
   text="The filter is modelled as the per-spike sum of the pairwise coincidence indicators over the other trains with keep iff count > thr*(N-1); TLC checks the partition property and that the count equals the multivariate profile value at unshared spike times. Each state is replayed (kept / removed arrays compared exactly, thresholds k/(N-1) hit exactly and mid-points) and the code is additionally checked for: partition in order on the original interval, monotonicity over 7 thresholds, agreement with spike_sync_profile(list), same result with / without return_removed_spikes, inputs unchanged; both coincidence_single implementations.",
   note="N = 2, 3, 4; small grid; lists sampled in the quick tier"),
 "C18": dict(engine="C session", design_ref="5 C18",
   technique="TLC enumeration (Multi.tla, WellFormed) of every list of degenerate trains x every public entry point x keywords + structural check of what the code returns",
   text="All lists of 2-4 trains drawn from the degenerate trains (no spike, one spike at every grid position incl. both edges, spikes on both edges, identical trains) plus a sampled slice of ordinary trains; TLC checks WellFormed on the spec result; every state is executed on the code in every call form under both backends and the returned object is checked: no exception, axis from t_start to t_end, strictly increasing (discrete: non-decreasing, framed), consistent lengths, positive multiplicities, all values finite; the bivariate-only functions are run on every ordered pair, normalised and not.",
   note="structural oracle; values are C01-C06; under the transliterated .pyx backend out-of-bounds accesses of the kernels are detected too"),
})
CHECKS.update({
 "C19": dict(engine="D io/collections", design_ref="5 C19",
   technique="TLC model checking of TextIO.tla (file = sequence of lines over a value pool closed under the rounding maps; RoundTrip, CountAndOrder, Identity17, RndMonotone) + replay of every behaviour through real files",
   text="A file is a sequence of data / comment / blank lines, a data line a sequence of tokens from a finite value pool; the rounding maps per precision are tables computed by the harness with exact decimal arithmetic (round-half-even of the exact binary value) and handed to TLC as JSON. Save, user edits (comment line, blank line, reversed line) and the load loop are actions; TLC checks the round trip, the number and order of trains, identity at precision 17 and monotonicity of rounding. Every behaviour is replayed through save_spike_trains_to_txt / load_spike_trains_from_txt / spike_train_from_string on real temporary files (5 separators, 3 comment prefixes, pair and scalar edges); all 0/1 matrices of several shapes (including 1 x n and n x 1) are imported with 4 (start, bin) pairs.",
   note="the decimal fidelity of arbitrary doubles is sampled through a finite pool of awkward doubles (0.1, 1/3, 1e-300, 2^53+2, ...), not decided; no backend dispatch"),
 "C20": dict(engine="D io/collections", design_ref="5 C20",
   technique="TLC model checking of Collections.tla (MergeIsMultisetUnion, PsthCounts) + replay; trace validation of recorded generate_poisson_spikes / merge executions against PoissonTrace.tla under a rank abstraction",
   text="Merge (concatenate + sort, edges of the first train) and PSTH (int(T/bin) equal bins by linspace, half-open with a closed last bin) are modelled on grid trains with duplicates across trains and empty trains; TLC checks multiset equality, sortedness, equal bin widths spanning the recording and that the bin values are the spike counts summing to the total; every state is replayed at two unit scales. Code-to-spec: seeded executions of generate_poisson_spikes (3 interval forms x 5 rates) and of merge_spike_trains on the repository's float data file and random float trains are recorded, every time replaced by its rank, and validated in one TLC batch run against the post-condition actions PoissonPost / MergePost.",
   note="nothing is claimed about the distribution of the Poisson generator; rank abstraction is exact for order and equality only"),
})
ROUND4 = {
 "C01": "pairs with a = b are also passed as one object twice; vacuity guard: an effective MRTS in every configuration",
 "C02": "pairs with a = b are also passed as one object twice; vacuity guard: an effective MRTS in every configuration",
 "C03": "the public routes of the per-spike indicator (filter, list form) with effective MRTS / max_tau; one object as both arguments; vacuity guard on MRTS and max_tau",
 "C04": "order checker under five frames; decimal-unit pass (SPIKE-Sync, SPIKE-Order, directionality decide rounding-level ties alike); 'auto' with index selections on a longer recording",
 "C05": "three unit scales incl. 2^-40 (event times of different trains closer than any merge tolerance)",
 "C06": "'auto' with index selections on a longer recording (pooled over the whole list)",
 "C08": "every pair once more dilated (x3, +1) with max_tau 1 and 2",
 "C09": "history probe: every object is asked integral()/avrg() before the operation and must answer like a fresh object afterwards; tiny unit 2^-50",
 "C10": "zero-bound frames (a query bound exactly 0.0 inside the support); mul_scalar / add on the queried object followed by the same queries",
 "C11": "history probe as C09; tiny unit 2^-50 (merge tolerances down to 1e-15 become visible)",
 "C12": "a decimal unit (0.1) in the twin comparison of the coincidence routines: both twins must round alike",
 "C13": "trains returned by two reconcile calls (different common intervals) used in the bivariate measures behave like fresh trains",
 "C14": "all call forms also on interval sequences (pieces reaching both edges)",
 "C15": "'auto' with index selections on a longer recording for ten entry points",
 "C16": "third, tiny unit 2^-40: a max_tau of 1e-12 is a bound like any other",
 "C17": "MRTS='auto' pass on a longer recording; one object in two places of the list vs a copy, with and without Reconcile=False",
 "C18": "edge-hugging variants: a spike one ulp inside t_end / t_start",
}
for _k, _v in ROUND4.items():
    CHECKS[_k]["note"] = CHECKS[_k]["note"] + "; since the 4th seeded round: " + _v
NOT_YET = {}

def main():
    props = [json.loads(l) for l in open(os.path.join(HERE, "properties.jsonl"))]
    checks = []
    na = []
    for p in props:
        pid = p["id"]
        if pid in CHECKS:
            c = CHECKS[pid]
            checks.append({
                "property_id": pid,
                "quick_cmd": "./check %s --tier quick" % pid,
                "thorough_cmd": "./check %s --tier thorough" % pid,
                "evidence_file": "/verif/evidence/%s.json" % pid,
                "replay_cmd_template": "./check %s --replay {path}" % pid,
                "engine": c["engine"],
                "level_claimed": {"category": "model_checking", "text": c["text"], "design_ref": "DESIGN.md section " + c["design_ref"]},
                "level_note": c["note"],
                "technique": c["technique"],
            })
        else:
            na.append({"property_id": pid, "reason": NOT_YET.get(pid, "check not built yet (work in progress); not claimed")})
    m = {
        "version": 1,
        "setup_cmd": "./tools/setup.sh",
        "hooks": {"guard": "PYSPIKE_VERIF", "enable": "PYSPIKE_VERIF=1 in the environment of the check (pyspike is imported from /repo's working tree, nothing is built)",
                  "baseline_off_cmd": "cd /repo && env -u PYSPIKE_VERIF /venv/bin/python -m pytest -ra -q -p no:cacheprovider --timeout=900 --continue-on-collection-errors",
                  "source_commits": ["f98c187"], "add_only": True},
        "engines": [
            {"name": "A pair-scan", "path": "spec/IsiScan.tla spec/SpikeScan.tla spec/SyncScan.tla spec/SingleScan.tla harness/checkers.py", "serves_properties": ["C01", "C02", "C03", "C04"], "kind_free_text": "TLC exhaustive over all train pairs x keywords, JSON export of terminal states, replay into python backend, transliterated .pyx kernels and public API"},
            {"name": "C session", "path": "spec/Multi.tla spec/Reconcile.tla harness/checkers_multi.py", "serves_properties": ["C04", "C05", "C06", "C08", "C13", "C14", "C15", "C17", "C18"], "kind_free_text": "TLC enumerates lists x entry point x index selection x interval x keywords and computes the expected result the code's way (pair generation, recursive halving, transcribed adds); states replayed through pyspike.* in every call form under both backends"},
            {"name": "D io/collections", "path": "spec/TextIO.tla spec/Collections.tla spec/PoissonTrace.tla harness/checkers_io.py harness/traces.py harness/pool.py", "serves_properties": ["C19", "C20"], "kind_free_text": "behaviours replayed through real temporary files; rank-abstracted recorded executions validated by TLC (batch trace validation)"},
            {"name": "B function objects", "path": "spec/FuncObjects.tla spec/FuncQuery.tla harness/checkers_func.py", "serves_properties": ["C09", "C10", "C11"], "kind_free_text": "TLC exhaustive over heaps of function objects and over (function, query) pairs; every transition / state replayed into the real classes"},
            {"name": "A + B (twins)", "path": "harness/checkers_rel.py (twin_*) harness/pyxshim.py", "serves_properties": ["C12"], "kind_free_text": "both members of each routine pair executed on every TLC export"},
            {"name": "A pair-scan (relations)", "path": "spec/Relations.tla harness/checkers_rel.py", "serves_properties": ["C07", "C08", "C15", "C16"], "kind_free_text": "TLC checks the relation on the declarative definitions for all pairs; each state is one case executed on the code before/after the transformation"},
        ],
        "checks": checks,
        "notes": "All checks: ./check <id> --tier quick|thorough (cwd /verif). Exit 0 held, 1 violation (VIOLATION line), 2 machinery failure. See DESIGN.md.",
        "not_applicable": na,
    }
    with open(os.path.join(HERE, "MANIFEST.json"), "w") as f:
        json.dump(m, f, indent=1)
    try:
        import jsonschema
        jsonschema.validate(m, json.load(open("/root/.vp/MANIFEST.schema.json")))
        print("MANIFEST.json valid: %d checks, %d not claimed" % (len(checks), len(na)))
    except ImportError:
        print("jsonschema not available; written unvalidated")

if __name__ == "__main__":
    main()

#!/venv/bin/python
"""Generates /verif/MANIFEST.json from the table below (kept in one place so that it stays valid)."""
import json, os, sys
HERE = os.path.dirname(os.path.dirname(os.path.abspath(__file__)))
sys.path.insert(0, os.path.join(HERE, "harness"))

CHECKS = {
 "C01": dict(engine="A pair-scan", design_ref="5 C01",
   technique="TLC exhaustive model checking of IsiScan.tla (scan = declarative definition) + replay of every terminal state into both backends and the public API",
   text="TLC enumerates every ordered pair of spike trains on a small integer grid x MRTS, runs the transcribed merge scan step by step in exact rational arithmetic and checks scan = definition (Defs!IsiDef), range, cursor bounds and termination in every state; every terminal state is replayed into isi_distance_python, the transliterated isi_profile_cython and pyspike.isi_profile under a dyadic unit-scale sweep and compared (breakpoints exactly, values to 1e-10).",
   note="small scope (all subsets of <= 8 grid points, sparse trains on 11 points); floating point judged by tolerance 1e-10; the compiled backend is executed by source transliteration of the .pyx files, not by a C build"),
 "C02": dict(engine="A pair-scan", design_ref="5 C02",
   technique="TLC exhaustive model checking of SpikeScan.tla (scan = declarative definition incl. one-sided limits) + replay of every terminal state into both backends and the public API",
   text="As C01 for the SPIKE profile: the incremental nearest-spike search, the per-train interpolation state and the three loop branches are transcribed; TLC checks equality with the declarative definition (left and right limits at every breakpoint), zero at shared spikes, range, global minimality of the early-exit search; terminal states are replayed into spike_distance_python, spike_profile_cython (transliterated) and pyspike.spike_profile for plain, RI and adaptive variants.",
   note="small scope; a piecewise-linear profile is compared through its one-sided limits at all breakpoints; tolerance 1e-10; .pyx by transliteration"),
 "C03": dict(engine="A pair-scan", design_ref="5 C03",
   technique="TLC exhaustive model checking of SyncScan.tla / SingleScan.tla against the pairwise coincidence definition + replay into both backends and the public API",
   text="The coincidence set is defined pairwise over all index pairs (Defs!Coinc); TLC checks that the merged-sequence scan marks exactly those spikes, that coincidence is one-to-one and mutual, that the event marked at n-1 is the partner, and that the per-spike indicator scan agrees; terminal states (all pairs x MRTS x max_tau incl. exact dt = tau ties) are replayed into coincidence_python / coincidence_profile_cython / coincidence_single_* and pyspike.spike_sync_profile.",
   note="small scope (dense 6-7 points, sparse 8-10 points with <= 3 spikes); .pyx by transliteration"),
 "C04": dict(engine="A pair-scan + C session", design_ref="5 C04",
   technique="TLC exhaustive model checking of SyncScan.tla (order / directionality observers, swap relation) + replay into kernels and public bivariate API",
   text="Order and directionality are observers of the same scan as C03; TLC checks scan = definition, that swapping the trains negates order profile and directionality, and the accumulators; terminal states are replayed into the order / directionality kernels (both backends), spike_train_order_profile, spike_directionality_values and spike_directionality.",
   note="multivariate part (indices, matrix, synfire indicator) is bound by the session engine; small scope; .pyx by transliteration"),
}
CHECKS.update({
 "C07": dict(engine="A pair-scan (relations)", design_ref="5 C07",
   technique="TLC exhaustive model checking of Relations.tla (Symmetric, Identity, InRange on the definitions) + execution of every exported case on the code under swap / self / copy",
   text="TLC checks on the declarative definitions, for every ordered pair of trains x MRTS x RI x max_tau, that ISI / SPIKE / SPIKE-Sync are symmetric, 0 / 0 / 1 on identical trains, un-normalised self-directionality 0, and all values in range; every TLC state is then executed on the implementation (both backends): f(a,b) vs f(b,a), f(a,a), f(a,copy), range of every profile value and of distances over the whole recording and 4 sub-intervals.",
   note="relations on the code are code-vs-code (tolerance 1e-10); scan = definition is C01-C04; small scope; .pyx by transliteration"),
 "C08": dict(engine="A pair-scan (relations)", design_ref="5 C08",
   technique="TLC exhaustive model checking of Relations.tla (ShiftInv, ScaleInv, MirrorSym) + execution of every exported case on the code under the same transformations",
   text="TLC checks on the definitions that integer shifts, integer scale factors (with MRTS and max_tau scaled) and reflection about the midpoint transform only the time axis (mirror: left/right limits exchanged, order negated); every TLC state is executed on the implementation before and after each transformation (plus dyadic factors 1/2, 1/4 and a shift by 1/2) for the four bivariate profiles and five scalar functions, both backends.",
   note="multivariate lists are covered by the session engine; code-vs-code with tolerance 1e-10; small scope"),
 "C15": dict(engine="A pair-scan (relations) + C session", design_ref="5 C15",
   technique="TLC exhaustive model checking of Relations.tla (ZeroIsPlain, Monotone, BelowAllIsNoOp, pooled-ISI definition) + execution of every exported case on the code",
   text="TLC checks on the definitions that MRTS=0 is the plain measure, that ISI / SPIKE values are non-increasing and the coincidence set non-decreasing in MRTS, and that an MRTS below every ISI is a no-op; the pooled inter-spike-interval lengths and their mean square are defined in the spec and exported; the code is run for every ordered pair MRTS1 <= MRTS2, with MRTS omitted vs 0, with MRTS='auto' vs the explicit threshold, and default_thresh is compared with the root of the exported mean square, at two unit scales.",
   note="bivariate forms here, multivariate / matrix forms in the session engine; the irrational threshold is compared as a double; small scope"),
 "C16": dict(engine="A pair-scan (relations)", design_ref="5 C16",
   technique="TLC exhaustive model checking of Relations.tla / SyncScan.tla (TauBounded, CoincGrowsWithTau) + execution of every exported case on all coincidence-based functions",
   text="TLC checks that with max_tau > 0 no pair of spikes max_tau or more apart is in the coincidence set and that the set grows with max_tau (None = unbounded); every TLC state is executed on spike_sync_profile, spike_train_order_profile, spike_directionality_values and filter_by_spike_sync: each spike the code marks coincident must have a partner closer than max_tau, None / 0 / omitted must agree, and marks must persist when max_tau grows; dense and sparse grids so that spikes have neighbours on both sides.",
   note="absolute agreement of the marks with the definition is C03/C04; small scope; two unit scales"),
})
CHECKS.update({
 "C09": dict(engine="B function objects", design_ref="5 C09",
   technique="TLC exhaustive model checking of FuncObjects.tla (heap with ghost denotations; Represents, XIsUnion, OnlyReceiverChanges, Commutes, IntegralLinear) + replay of every transition into real function objects with whole-heap comparison",
   text="A heap of three function objects over every pair of breakpoint patterns with generic piece values; the add routines (merge loop, tail-copy branches, simultaneous end) are transcribed and TLC checks in every reachable state that the concrete arrays denote the ghost linear combination (one-sided limits at every grid point), that breakpoints are the strictly increasing union, that only the receiver changes, that addition commutes and the integral is linear. Every transition (pre-heap, op, post-heap) is replayed on PieceWiseConstFunc / PieceWiseLinFunc under both add backends: the whole heap is compared and an independence probe (scale one object, all others bit-identical) detects shared arrays.",
   note="histories are covered transition-wise from every heap reachable within MaxOps operations (2 quick / 3 thorough); small grids; tolerance 1e-10"),
 "C10": dict(engine="B function objects", design_ref="5 C10",
   technique="TLC exhaustive model checking of FuncQuery.tla (code formula = exact Riemann integral / evaluation rule for every function x query) + replay of every state into integral / avrg / __call__ / get_plottable_data",
   text="The index search (searchsorted right/left), the same-piece and general branches of integral, avrg for one and several intervals, the scalar and the vectorised evaluation path and the plottable arrays are transcribed; TLC checks them against the declarative integral (overlap with every piece), additivity at every split point, full = whole support, the evaluation rule (piece / mean of limits at interior breakpoints / one-sided at the ends). Every state is replayed into the real methods (tuple and list interval forms, scalar and list times) on a support that does not start at 0, at two unit scales.",
   note="all breakpoint patterns of a 5-7 point support, all a<b on the quarter grid, generic values; tolerance 1e-10"),
 "C11": dict(engine="B function objects", design_ref="5 C11",
   technique="TLC exhaustive model checking of FuncObjects.tla (Kind=disc) and FuncQuery.tla (open-interval sums, ratio-or-1, smoothing = unit mean) + replay of every transition / query state into DiscreteFunc",
   text="Discrete add (merge, tails, edge fix-up) is transcribed; TLC checks one entry per distinct event time with summed values / multiplicities (ghost combination), framing edges, and for every function and interval that integral sums exactly the events strictly inside, several intervals add, avrg is the ratio or 1, and that the smoothing loop equals the mean over unit contributions for k = 0,1,2. Transitions and query states are replayed into DiscreteFunc.add / mul_scalar / copy / integral / avrg / get_plottable_data under both add backends.",
   note="events on integer times incl. the edge times; multiplicities 1..3; small grids"),
 "C12": dict(engine="A + B (twins)", design_ref="5 C12",
   technique="replay of the TLC-exported argument tuples of IsiScan / SpikeScan / SyncScan / FuncObjects into both members of each of the 15 routine pairs (python_backend vs transliterated .pyx), single-pass routines vs sums over the profile",
   text="Both implementations are bound to the same L2 specification modules; every terminal state / add transition TLC exports is executed on the pure-Python routine and on the .pyx routine (source-level transliteration with bounds-checked memoryviews and C division) and the two results are compared with each other; the five single-pass routines are compared with the sum / average of the corresponding profile; get_tau is compared for every index pair the scans can request; the existence of all 15 pairs is checked.",
   note="executes the .pyx source semantics, not a C build: C compilation, int overflow and nogil threading are not covered"),
})
NOT_YET = {}

def main():
    props = [json.loads(l) for l in open(os.path.join(HERE, "properties.jsonl"))]
    checks = []
    na = []
    for p in props:
        pid = p["id"]
        if pid in CHECKS:
            c = CHECKS[pid]
            checks.append({
                "property_id": pid,
                "quick_cmd": "./check %s --tier quick" % pid,
                "thorough_cmd": "./check %s --tier thorough" % pid,
                "evidence_file": "/verif/evidence/%s.json" % pid,
                "replay_cmd_template": "./check %s --replay {path}" % pid,
                "engine": c["engine"],
                "level_claimed": {"category": "model_checking", "text": c["text"], "design_ref": "DESIGN.md section " + c["design_ref"]},
                "level_note": c["note"],
                "technique": c["technique"],
            })
        else:
            na.append({"property_id": pid, "reason": NOT_YET.get(pid, "check not built yet (work in progress); not claimed")})
    m = {
        "version": 1,
        "setup_cmd": "./tools/setup.sh",
        "hooks": {"guard": "PYSPIKE_VERIF", "enable": "PYSPIKE_VERIF=1 in the environment of the check (pyspike is imported from /repo's working tree, nothing is built)",
                  "baseline_off_cmd": "cd /repo && env -u PYSPIKE_VERIF /venv/bin/python -m pytest -ra -q -p no:cacheprovider --timeout=900 --continue-on-collection-errors",
                  "source_commits": [], "add_only": True},
        "engines": [
            {"name": "A pair-scan", "path": "spec/IsiScan.tla spec/SpikeScan.tla spec/SyncScan.tla spec/SingleScan.tla harness/checkers.py", "serves_properties": ["C01", "C02", "C03", "C04"], "kind_free_text": "TLC exhaustive over all train pairs x keywords, JSON export of terminal states, replay into python backend, transliterated .pyx kernels and public API"},
            {"name": "B function objects", "path": "spec/FuncObjects.tla spec/FuncQuery.tla harness/checkers_func.py", "serves_properties": ["C09", "C10", "C11"], "kind_free_text": "TLC exhaustive over heaps of function objects and over (function, query) pairs; every transition / state replayed into the real classes"},
            {"name": "A + B (twins)", "path": "harness/checkers_rel.py (twin_*) harness/pyxshim.py", "serves_properties": ["C12"], "kind_free_text": "both members of each routine pair executed on every TLC export"},
            {"name": "A pair-scan (relations)", "path": "spec/Relations.tla harness/checkers_rel.py", "serves_properties": ["C07", "C08", "C15", "C16"], "kind_free_text": "TLC checks the relation on the declarative definitions for all pairs; each state is one case executed on the code before/after the transformation"},
        ],
        "checks": checks,
        "notes": "All checks: ./check <id> --tier quick|thorough (cwd /verif). Exit 0 held, 1 violation (VIOLATION line), 2 machinery failure. See DESIGN.md.",
        "not_applicable": na,
    }
    with open(os.path.join(HERE, "MANIFEST.json"), "w") as f:
        json.dump(m, f, indent=1)
    try:
        import jsonschema
        jsonschema.validate(m, json.load(open("/root/.vp/MANIFEST.schema.json")))
        print("MANIFEST.json valid: %d checks, %d not claimed" % (len(checks), len(na)))
    except ImportError:
        print("jsonschema not available; written unvalidated")

if __name__ == "__main__":
    main()

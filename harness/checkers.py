"""Checkers: compare what the implementation returns with the spec-exported expectation."""
import numpy as np

import impl
from impl import PB, DPB, pyspike, call, arr, train, nonempty, shim
from common import fr, frl, close, close_seq, fl, is_finite
from replay import checker

SIGMAS = (1.0, 2.0 ** -10, 2.0 ** 10)     # unit-scale sweep (DESIGN.md 4.3): dyadic, exact in floats
# frames (scale, shift): the unit-scale sweep plus a far-away origin (absolute tolerances such as
# numpy.isclose's 1e-5*|t| become visible when the recording starts at 2^30)
# and a tiny unit (absolute tolerances such as 1e-12 then exceed the grid spacing)
FRAMES = ((1.0, 0.0), (2.0 ** -10, 0.0), (2.0 ** 10, 0.0), (1.0, 2.0 ** 30), (2.0 ** -40, 0.0))


def _mm(sub, text, observed=None, expected=None):
    return {"sub": sub, "text": text, "observed": observed, "expected": expected}


def _hdr(rec, keys):
    return " ".join("%s=%s" % (k, rec.get(k)) for k in keys)


def _cmp_arrays(out, sub, rec, hdr, got, exp, scales, shift=0.0):
    """got: tuple of arrays, exp: tuple of lists of Fractions, scales: per array scale"""
    for name, g, e, sc in zip(("x", "y", "y2", "mp"), got, exp, scales):
        e2 = [float(v) * sc + (shift if name == "x" else 0.0) for v in e]
        g = np.asarray(g, dtype=float)
        if len(g) != len(e2) or not all(close(gi, ei, sc if name == "x" else 1.0) for gi, ei in zip(g, e2)):
            out.append(_mm(sub, "%s %s: array %d (%s) = %s expected %s" % (sub, hdr, 0, name, fl(g), e2),
                           fl(g), e2))
            return False
    return True


# ---------------------------------------------------------------- C01  ISI profile
@checker("isi")
def chk_isi(rec, be):
    a, b, ts, te = rec["a"], rec["b"], rec["ts"], rec["te"]
    m = fr(rec["mrts"])
    X, Y = rec["x"], frl(rec["y"])
    hdr = "a=%s b=%s [%s,%s] MRTS=%s" % (a, b, ts, te, m)
    out = []
    n = 0
    for sg, sh in rec.get("_frames", FRAMES):
        f = PB.isi_distance_python if be == "py" else shim("cython_profiles", "isi_profile_cython")
        st, r = call(f, nonempty(a, ts, te, sg, sh), nonempty(b, ts, te, sg, sh), ts * sg + sh, te * sg + sh, float(m) * sg)
        n += 1
        sub = "isi-kernel[%s,s=%g,shift=%g]" % (be, sg, sh)
        if st != "ok":
            out.append(_mm(sub, "%s %s raised %s" % (sub, hdr, r)))
        else:
            _cmp_arrays(out, sub, rec, hdr, r, (X, Y), (sg, 1.0), sh)
        st, r = call(pyspike.isi_profile, train(a, ts, te, sg, sh), train(b, ts, te, sg, sh), MRTS=float(m) * sg)
        n += 1
        sub = "isi_profile[%s,s=%g,shift=%g]" % (be, sg, sh)
        if st != "ok":
            out.append(_mm(sub, "%s %s raised %s" % (sub, hdr, r)))
        else:
            _cmp_arrays(out, sub, rec, hdr, (r.x, r.y), (X, Y), (sg, 1.0), sh)
    if list(a) == list(b):
        # the same object as both arguments is a pair like any other (e.g. the diagonal of a double loop)
        t = train(a, ts, te)
        st, r = call(pyspike.isi_profile, t, t, MRTS=float(m))
        n += 1
        sub = "isi_profile[%s,one object as both arguments]" % be
        if st != "ok":
            out.append(_mm(sub, "%s %s raised %s" % (sub, hdr, r)))
        else:
            _cmp_arrays(out, sub, rec, hdr, (r.x, r.y), (X, Y), (1.0, 1.0), 0.0)
    return n, out


# ---------------------------------------------------------------- C02  SPIKE profile
@checker("spike")
def chk_spike(rec, be):
    a, b, ts, te = rec["a"], rec["b"], rec["ts"], rec["te"]
    m = fr(rec["mrts"])
    ri = bool(rec["ri"])
    X, Y1, Y2 = rec["x"], frl(rec["y1"]), frl(rec["y2"])
    hdr = "a=%s b=%s [%s,%s] MRTS=%s RI=%s" % (a, b, ts, te, m, ri)
    out = []
    n = 0
    for sg, sh in rec.get("_frames", FRAMES):
        f = PB.spike_distance_python if be == "py" else shim("cython_profiles", "spike_profile_cython")
        st, r = call(f, nonempty(a, ts, te, sg, sh), nonempty(b, ts, te, sg, sh), ts * sg + sh, te * sg + sh, float(m) * sg, ri)
        n += 1
        sub = "spike-kernel[%s,s=%g,shift=%g]" % (be, sg, sh)
        if st != "ok":
            out.append(_mm(sub, "%s %s raised %s" % (sub, hdr, r)))
        else:
            _cmp_arrays(out, sub, rec, hdr, r, (X, Y1, Y2), (sg, 1.0, 1.0), sh)
        st, r = call(pyspike.spike_profile, train(a, ts, te, sg, sh), train(b, ts, te, sg, sh), MRTS=float(m) * sg, RI=ri)
        n += 1
        sub = "spike_profile[%s,s=%g,shift=%g]" % (be, sg, sh)
        if st != "ok":
            out.append(_mm(sub, "%s %s raised %s" % (sub, hdr, r)))
        else:
            _cmp_arrays(out, sub, rec, hdr, (r.x, r.y1, r.y2), (X, Y1, Y2), (sg, 1.0, 1.0), sh)
    if list(a) == list(b):
        t = train(a, ts, te)
        st, r = call(pyspike.spike_profile, t, t, MRTS=float(m), RI=ri)
        n += 1
        sub = "spike_profile[%s,one object as both arguments]" % be
        if st != "ok":
            out.append(_mm(sub, "%s %s raised %s" % (sub, hdr, r)))
        else:
            _cmp_arrays(out, sub, rec, hdr, (r.x, r.y1, r.y2), (X, Y1, Y2), (1.0, 1.0, 1.0), 0.0)
    return n, out


# ---------------------------------------------------------------- C03  SPIKE-Sync profile
def _mt(rec, sg, variant=0):
    """user-level max_tau: the spec value 0 means None / 0"""
    t = float(fr(rec["mtau"])) * sg
    return t


def _cmp_disc(out, sub, hdr, got, exp, sg, shift=0.0):
    """discrete profile: time axis exactly; values and multiplicities of the events (the two edge
    entries frame the profile and never count: only their presence and position are compared)"""
    names = ("x", "y", "mp")
    for name, g, e in zip(names, got, exp):
        g = np.asarray(g, dtype=float)
        sc = sg if name == "x" else 1.0
        e2 = [float(v) * sc + (shift if name == "x" else 0.0) for v in e]
        if name != "x" and len(g) == len(e2) and len(g) >= 2:
            g, e2 = g[1:-1], e2[1:-1]
        if len(g) != len(e2) or not all(close(gi, ei, sc) for gi, ei in zip(g, e2)):
            out.append(_mm(sub, "%s %s: %s = %s expected %s" % (sub, hdr, name, fl(g), e2), fl(g), e2))
            return False
    return True


def _typed(v, k):
    """the same number in another numeric type (keywords arrive as numpy scalars, ints, float32 in real use)"""
    if v is None:
        return None
    k = k % 5
    if k == 1:
        return np.float64(v)
    if k == 2 and float(np.float32(v)) == float(v):
        return np.float32(v)
    if k == 3 and float(v) == int(v):
        return np.int64(int(v))
    if k == 4 and float(v) == int(v):
        return int(v)
    return float(v)


@checker("sync")
def chk_sync(rec, be):
    a, b, ts, te = rec["a"], rec["b"], rec["ts"], rec["te"]
    m = fr(rec["mrts"])
    hdr = "a=%s b=%s [%s,%s] MRTS=%s max_tau=%s" % (a, b, ts, te, m, fr(rec["mtau"]))
    out = []
    n = 0
    exp = (rec["x"], rec["c"], rec["mp"])
    for k, (sg, sh) in enumerate(rec.get("_frames", FRAMES)):
        mt = _mt(rec, sg)
        f = PB.coincidence_python if be == "py" else shim("cython_profiles", "coincidence_profile_cython")
        st, r = call(f, arr(a, sg, sh), arr(b, sg, sh), ts * sg + sh, te * sg + sh, mt, float(m) * sg)
        n += 1
        sub = "sync-kernel[%s,s=%g,shift=%g]" % (be, sg, sh)
        if st != "ok":
            out.append(_mm(sub, "%s %s raised %s" % (sub, hdr, r)))
        else:
            _cmp_disc(out, sub, hdr, r, exp, sg, sh)
        mtu = None if (mt == 0 and k % 2 == 0) else mt
        mtu = _typed(mtu, k + 1)
        st, r = call(pyspike.spike_sync_profile, train(a, ts, te, sg, sh), train(b, ts, te, sg, sh),
                     max_tau=mtu, MRTS=_typed(float(m) * sg, k + 2))
        n += 1
        sub = "spike_sync_profile[%s,s=%g,shift=%g,max_tau=%r (%s)]" % (be, sg, sh, mtu, type(mtu).__name__)
        if st != "ok":
            out.append(_mm(sub, "%s %s raised %s" % (sub, hdr, r)))
        else:
            _cmp_disc(out, sub, hdr, (r.x, r.y, r.mp), exp, sg, sh)
    if list(a) == list(b):
        t = train(a, ts, te)
        st, r = call(pyspike.spike_sync_profile, t, t, max_tau=_mt(rec, 1.0), MRTS=float(m))
        n += 1
        sub = "spike_sync_profile[%s,one object as both arguments]" % be
        if st != "ok":
            out.append(_mm(sub, "%s %s raised %s" % (sub, hdr, r)))
        else:
            _cmp_disc(out, sub, hdr, (r.x, r.y, r.mp), exp, 1.0, 0.0)
    return n, out


@checker("single")
def chk_single(rec, be):
    a, b, ts, te = rec["a"], rec["b"], rec["ts"], rec["te"]
    m = fr(rec["mrts"])
    hdr = "a=%s b=%s [%s,%s] MRTS=%s max_tau=%s" % (a, b, ts, te, m, fr(rec["mtau"]))
    out = []
    n = 0
    for sg, sh in rec.get("_frames", FRAMES):
        f = PB.coincidence_single_python if be == "py" else \
            shim("cython_profiles", "coincidence_single_profile_cython")
        st, r = call(f, arr(a, sg, sh), arr(b, sg, sh), ts * sg + sh, te * sg + sh, _mt(rec, sg), float(m) * sg)
        n += 1
        sub = "single-kernel[%s,s=%g,shift=%g]" % (be, sg, sh)
        if st != "ok":
            out.append(_mm(sub, "%s %s raised %s" % (sub, hdr, r)))
        else:
            g = [float(v) for v in np.asarray(r, dtype=float)]
            if g != [float(v) for v in rec["c"]]:
                out.append(_mm(sub, "%s %s: c = %s expected %s" % (sub, hdr, g, rec["c"]), g, rec["c"]))
    return n, out


# ---------------------------------------------------------------- C04  order / directionality (bivariate)
@checker("order")
def chk_order(rec, be):
    a, b, ts, te = rec["a"], rec["b"], rec["ts"], rec["te"]
    m = fr(rec["mrts"])
    hdr = "a=%s b=%s [%s,%s] MRTS=%s max_tau=%s" % (a, b, ts, te, m, fr(rec["mtau"]))
    out = []
    n = 0
    exp = (rec["x"], rec["ord"], rec["mp"])
    d1e = [float(v) for v in rec["d1"]]
    d2e = [float(v) for v in rec["d2"]]
    frames = [(sg_, 0.0) for sg_ in rec["_sigmas"]] if "_sigmas" in rec else rec.get("_frames", FRAMES)
    for k, (sg, sh) in enumerate(frames):
        mt = _mt(rec, sg)
        mtu = None if (mt == 0 and k % 2 == 0) else mt
        A, B = arr(a, sg, sh), arr(b, sg, sh)
        f = DPB.spike_train_order_profile_python if be == "py" else \
            shim("cython_directionality", "spike_train_order_profile_cython")
        st, r = call(f, A, B, ts * sg + sh, te * sg + sh, mt, float(m) * sg)
        n += 1
        sub = "order-kernel[%s,s=%g,shift=%g]" % (be, sg, sh)
        if st != "ok":
            out.append(_mm(sub, "%s %s raised %s" % (sub, hdr, r)))
        else:
            _cmp_disc(out, sub, hdr, r, exp, sg, sh)
        f = DPB.spike_directionality_profile_python if be == "py" else \
            shim("cython_directionality", "spike_directionality_profiles_cython")
        st, r = call(f, A, B, ts * sg + sh, te * sg + sh, mt, float(m) * sg)
        n += 1
        sub = "dir-kernel[%s,s=%g,shift=%g]" % (be, sg, sh)
        if st != "ok":
            out.append(_mm(sub, "%s %s raised %s" % (sub, hdr, r)))
        else:
            g1, g2 = fl(np.asarray(r[0], dtype=float)), fl(np.asarray(r[1], dtype=float))
            if g1 != d1e or g2 != d2e:
                out.append(_mm(sub, "%s %s: d1,d2 = %s,%s expected %s,%s" % (sub, hdr, g1, g2, d1e, d2e),
                               [g1, g2], [d1e, d2e]))
        s1, s2 = train(a, ts, te, sg, sh), train(b, ts, te, sg, sh)
        st, r = call(pyspike.spike_train_order_profile, s1, s2, max_tau=mtu, MRTS=float(m) * sg)
        n += 1
        sub = "spike_train_order_profile[%s,s=%g,shift=%g,max_tau=%r]" % (be, sg, sh, mtu)
        if st != "ok":
            out.append(_mm(sub, "%s %s raised %s" % (sub, hdr, r)))
        else:
            _cmp_disc(out, sub, hdr, (r.x, r.y, r.mp), exp, sg, sh)
        st, r = call(pyspike.spike_directionality_values, s1, s2, max_tau=mtu, MRTS=float(m) * sg)
        n += 1
        sub = "spike_directionality_values[%s,s=%g,shift=%g]" % (be, sg, sh)
        if st != "ok":
            out.append(_mm(sub, "%s %s raised %s" % (sub, hdr, r)))
        else:
            g1, g2 = fl(np.asarray(r[0], dtype=float)), fl(np.asarray(r[1], dtype=float))
            if g1 != d1e or g2 != d2e:
                out.append(_mm(sub, "%s %s: values = %s,%s expected %s,%s" % (sub, hdr, g1, g2, d1e, d2e),
                               [g1, g2], [d1e, d2e]))
        # directionality of A with respect to B: sum of A's values (normalised: / A's spike count)
        dsum = sum(d1e)
        st, r = call(pyspike.spike_directionality, s1, s2, normalize=False, max_tau=mtu, MRTS=float(m) * sg)
        n += 1
        sub = "spike_directionality[%s,s=%g,shift=%g,normalize=False]" % (be, sg, sh)
        if st != "ok":
            out.append(_mm(sub, "%s %s raised %s" % (sub, hdr, r)))
        elif not close(r, dsum):
            out.append(_mm(sub, "%s %s = %r expected %s" % (sub, hdr, r, dsum), float(r), dsum))
        if len(a) > 0:
            st, r = call(pyspike.spike_directionality, s1, s2, max_tau=mtu, MRTS=float(m) * sg)
            n += 1
            sub = "spike_directionality[%s,s=%g,shift=%g]" % (be, sg, sh)
            if st != "ok":
                out.append(_mm(sub, "%s %s raised %s" % (sub, hdr, r)))
            elif not close(r, dsum / len(a)):
                out.append(_mm(sub, "%s %s = %r expected %s" % (sub, hdr, r, dsum / len(a)), float(r), dsum / len(a)))
    # decimal frame (unit 0.1, not exact in floats): the specification's exact ties are then decided by
    # rounding, so nothing is compared with the specification -- but SPIKE-Sync, SPIKE-Order and the
    # directionality must still decide every tie the SAME way (they are defined on the same coincidences)
    if "_sigmas" not in rec:
        sg = 0.1
        mt = _mt(rec, sg)
        s1, s2 = train(a, ts, te, sg), train(b, ts, te, sg)
        kw = dict(max_tau=mt if mt > 0 else None, MRTS=float(m) * sg)
        stc, pc = call(pyspike.spike_sync_profile, s1, s2, **kw)
        sto, po = call(pyspike.spike_train_order_profile, s1, s2, **kw)
        std, dv = call(pyspike.spike_directionality_values, s1, s2, **kw)
        n += 1
        sub = "coincidences[%s,unit 0.1]" % be
        if stc != "ok" or sto != "ok" or std != "ok":
            if not (stc == sto == std):
                out.append(_mm(sub, "%s %s: spike_sync_profile %s, spike_train_order_profile %s, spike_directionality_values %s" % (
                    sub, hdr, pc if stc != "ok" else "ok", po if sto != "ok" else "ok", dv if std != "ok" else "ok")))
        else:
            shared = set(s1.spikes.tolist()) & set(s2.spikes.tolist())
            cx, cy, ox, oy = list(pc.x), list(pc.y), list(po.x), list(po.y)
            if cx != ox or list(pc.mp) != list(po.mp):
                out.append(_mm(sub, "%s %s: SPIKE-Sync and SPIKE-Order profiles have different events: %s / %s" % (sub, hdr, fl(cx), fl(ox))))
            else:
                for k in range(1, len(cx) - 1):
                    if cx[k] not in shared and abs(oy[k]) != cy[k]:
                        out.append(_mm(sub, "%s %s: at t=%r SPIKE-Sync says %g, SPIKE-Order says %g: the two measures "
                                            "use different coincidences" % (sub, hdr, cx[k], cy[k], oy[k])))
                        break
                nz = sum(1 for k in range(1, len(cx) - 1) if cx[k] not in shared and cy[k] != 0)
                dn = sum(1 for v in list(dv[0]) + list(dv[1]) if v != 0)
                if nz != dn:
                    out.append(_mm(sub, "%s %s: %d coincident spikes in the SPIKE-Sync profile, %d non-zero directionality values" % (
                        sub, hdr, nz, dn)))
    return n, out


import checkers_rel  # noqa: E402,F401  (registers the relational checkers)
import checkers_func  # noqa: E402,F401
import checkers_multi  # noqa: E402,F401
import checkers_io  # noqa: E402,F401
import checkers_simann  # noqa: E402,F401
import checkers_objects  # noqa: E402,F401

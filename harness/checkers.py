"""Checkers: compare what the implementation returns with the spec-exported expectation."""
import numpy as np

import impl
from impl import PB, DPB, pyspike, call, arr, train, nonempty, shim
from common import fr, frl, close, close_seq, fl, is_finite
from replay import checker

SIGMAS = (1.0, 2.0 ** -10, 2.0 ** 10)     # unit-scale sweep (DESIGN.md 4.3): dyadic, exact in floats


def _mm(sub, text, observed=None, expected=None):
    return {"sub": sub, "text": text, "observed": observed, "expected": expected}


def _hdr(rec, keys):
    return " ".join("%s=%s" % (k, rec.get(k)) for k in keys)


def _cmp_arrays(out, sub, rec, hdr, got, exp, scales):
    """got: tuple of arrays, exp: tuple of lists of Fractions, scales: per array scale"""
    for name, g, e, sc in zip(("x", "y", "y2", "mp"), got, exp, scales):
        e2 = [float(v) * sc for v in e]
        g = np.asarray(g, dtype=float)
        if len(g) != len(e2) or not all(close(gi, ei, sc if name == "x" else 1.0) for gi, ei in zip(g, e2)):
            out.append(_mm(sub, "%s %s: array %d (%s) = %s expected %s" % (sub, hdr, 0, name, fl(g), e2),
                           fl(g), e2))
            return False
    return True


# ---------------------------------------------------------------- C01  ISI profile
@checker("isi")
def chk_isi(rec, be):
    a, b, ts, te = rec["a"], rec["b"], rec["ts"], rec["te"]
    m = fr(rec["mrts"])
    X, Y = rec["x"], frl(rec["y"])
    hdr = "a=%s b=%s [%s,%s] MRTS=%s" % (a, b, ts, te, m)
    out = []
    n = 0
    for sg in rec.get("_sigmas", SIGMAS):
        f = PB.isi_distance_python if be == "py" else shim("cython_profiles", "isi_profile_cython")
        st, r = call(f, nonempty(a, ts, te, sg), nonempty(b, ts, te, sg), ts * sg, te * sg, float(m) * sg)
        n += 1
        sub = "isi-kernel[%s,s=%g]" % (be, sg)
        if st != "ok":
            out.append(_mm(sub, "%s %s raised %s" % (sub, hdr, r)))
        else:
            _cmp_arrays(out, sub, rec, hdr, r, (X, Y), (sg, 1.0))
        st, r = call(pyspike.isi_profile, train(a, ts, te, sg), train(b, ts, te, sg), MRTS=float(m) * sg)
        n += 1
        sub = "isi_profile[%s,s=%g]" % (be, sg)
        if st != "ok":
            out.append(_mm(sub, "%s %s raised %s" % (sub, hdr, r)))
        else:
            _cmp_arrays(out, sub, rec, hdr, (r.x, r.y), (X, Y), (sg, 1.0))
    return n, out

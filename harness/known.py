"""Known findings (DESIGN.md section 6).  /verif/known_findings.json is committed and never
written at run time.  An `open` entry names a property, the checker that observes it and a
predicate on the failing record (the input class / call site); a mismatch is attributed to the
finding only if property, checker and predicate all match.  `fixed` entries suppress nothing."""
import json
import os

from common import VERIF

_cache = None
PREDICATES = {}


def predicate(name):
    def deco(f):
        PREDICATES[name] = f
        return f
    return deco


def load():
    global _cache
    if _cache is None:
        p = os.path.join(VERIF, "known_findings.json")
        if os.path.exists(p):
            with open(p) as f:
                _cache = json.load(f)
        else:
            _cache = {"findings": []}
    return _cache


def classify(prop, checker, record, text):
    import known_predicates  # noqa: F401  (registers the predicates)
    for kf in load()["findings"]:
        if kf.get("status") != "open":
            continue
        if prop not in kf.get("properties", []):
            continue
        if kf.get("checkers") and checker not in kf["checkers"]:
            continue
        pred = PREDICATES.get(kf.get("predicate"))
        if pred is None:
            continue
        try:
            if pred(record, text):
                return kf
        except Exception:
            continue
    return None

"""Checkers of engine D: text round trips / imports (C19), merge / PSTH (C20)."""
import os
import shutil
import tempfile

import numpy as np

import impl
from impl import pyspike, call, train
from common import fr, close, fl
from replay import checker

SEPS = [" ", ",", ";", "\t", ", "]
COMMENTS = ["#", "%", "//"]


def _mm(sub, text, observed=None, expected=None):
    return {"sub": sub, "text": text, "observed": observed, "expected": expected}


class Scratch(object):
    def __enter__(self):
        self.d = tempfile.mkdtemp(prefix="pyspike_io_")
        return self.d

    def __exit__(self, *a):
        shutil.rmtree(self.d, ignore_errors=True)


@checker("textio")
def chk_textio(rec, be):
    out = []
    n = 0
    vals = rec["_vals"]
    precs = rec["_precs"]
    k = rec["_k"]
    sep = SEPS[k % len(SEPS)]
    com = COMMENTS[(k // len(SEPS)) % len(COMMENTS)]
    p = precs[rec["par"]["pi"] - 1]
    lo, hi = min(vals) - 1.0, max(vals) + 1.0
    trains = [pyspike.SpikeTrain(np.array([vals[i - 1] for i in t], dtype=float), [lo, hi]) for t in rec["trains"]]
    hdr = "trains=%s precision=%d sep=%r comment=%r edits=%s ignore_empty=%s is_sorted=%s" % (
        [[vals[i - 1] for i in t] for t in rec["trains"]], p, sep, com,
        [(e["e"], e["pos"]) for e in rec["edits"]], rec["par"]["ignore"], rec["par"]["sorted"])
    sub = "save/load"
    with Scratch() as d:
        fn = os.path.join(d, "trains.txt")
        st, r = call(lambda: pyspike.save_spike_trains_to_txt(trains, fn, separator=sep, precision=p))
        n += 1
        if st != "ok":
            return n, [_mm(sub, "%s %s: save raised %s" % (sub, hdr, r))]
        with open(fn) as f:
            lines = f.read().split("\n")[:-1]
        if len(lines) != len(trains):
            return n, [_mm(sub, "%s %s: %d lines written for %d trains" % (sub, hdr, len(lines), len(trains)))]
        for e in rec["edits"]:
            pos = e["pos"] - 1
            if e["e"] == "comment":
                lines.insert(pos, com + " a comment 1.5 2.5")
            elif e["e"] == "blank":
                lines.insert(pos, "")
            elif e["e"] == "short":
                lines.insert(pos, "5")
            else:
                lines[pos] = sep.join(reversed(lines[pos].split(sep)))
        with open(fn, "w") as f:
            f.write("".join(l + "\n" for l in lines))
        for edges, e0, e1 in (((lo, hi), lo, hi), (hi + 2.0, 0.0, hi + 2.0), (np.float64(hi + 3.0), 0.0, hi + 3.0)):
            st, r = call(lambda: pyspike.load_spike_trains_from_txt(
                fn, edges, separator=sep, comment=com, is_sorted=rec["par"]["sorted"],
                ignore_empty_lines=rec["par"]["ignore"]))
            n += 1
            if st != "ok":
                out.append(_mm(sub, "%s %s: load raised %s" % (sub, hdr, r)))
                break
            exp = [[vals[i - 1] for i in t] for t in rec["loaded"]]
            got = [list(map(float, s.spikes)) for s in r]
            if got != exp:
                out.append(_mm(sub, "%s %s: loaded %s expected %s" % (sub, hdr, got, exp), got, exp))
                break
            if any(s.t_start != e0 or s.t_end != e1 for s in r):
                out.append(_mm(sub, "%s %s: edges %s expected [%r, %r]" % (sub, hdr, [(s.t_start, s.t_end) for s in r], e0, e1)))
                break
        # the same data lines through spike_train_from_string
        for l in lines:
            if l.startswith(com) or len(l) == 0:
                continue
            for srt in (False, True):
                st, r = call(lambda: pyspike.spike_train_from_string(l, (lo, hi), sep=sep, is_sorted=srt))
                n += 1
                try:
                    toks = [float(t) for t in l.split(sep) if t.strip()]
                except ValueError:
                    break        # the file format itself is not pinned by the property; the round trip above decides
                exp = toks if srt else sorted(toks)
                if st != "ok":
                    out.append(_mm("from_string", "spike_train_from_string(%r, sep=%r) raised %s" % (l, sep, r)))
                elif list(map(float, r.spikes)) != exp or r.t_start != lo or r.t_end != hi:
                    out.append(_mm("from_string", "spike_train_from_string(%r, sep=%r, is_sorted=%s) = %s on [%r,%r] expected %s" % (
                        l, sep, srt, fl(r.spikes), r.t_start, r.t_end, exp)))
    return n, out


@checker("series")
def chk_series(rec, be):
    """0/1 time series: start + (k+1)*bin for every non-zero sample k; edges [start, last bin]"""
    out = []
    n = 0
    rows = [l["toks"] for l in rec["file"]]
    C = len(rows[0])
    with Scratch() as d:
        for sepname, sep in (("None", None), (",", ",")):
            fn = os.path.join(d, "series.txt")
            with open(fn, "w") as f:
                f.write("# a 0/1 time series\n")
                for r in rows:
                    f.write((sep or " ").join(str(v) for v in r) + "\n")
            for start, binw in ((0.0, 1.0), (1.5, 0.5), (-2.0, 0.25), (10.0, 2.0)):
                st, r = call(lambda: pyspike.import_spike_trains_from_time_series(fn, start, binw, separator=sep))
                n += 1
                sub = "import_spike_trains_from_time_series"
                hdr = "matrix=%s start=%g bin=%g separator=%s" % (rows, start, binw, sepname)
                if st != "ok":
                    out.append(_mm(sub, "%s %s raised %s" % (sub, hdr, r)))
                    return n, out
                exp = [[start + k * binw for k in t] for t in rec["loaded"]]
                got = [list(map(float, s.spikes)) for s in r]
                if got != exp:
                    out.append(_mm(sub, "%s %s: trains %s expected %s" % (sub, hdr, got, exp), got, exp))
                    return n, out
                if any(s.t_start != start or s.t_end != start + C * binw for s in r):
                    out.append(_mm(sub, "%s %s: edges %s expected [%g, %g]" % (sub, hdr, [(s.t_start, s.t_end) for s in r], start, start + C * binw)))
                    return n, out
    # scalar edge = [0, edge]
    for e in (5.0, 0.25, 7, np.float64(2.5), np.int64(3), np.array(4.0)):
        st, s = call(lambda: pyspike.SpikeTrain([0.1], e))
        n += 1
        if st != "ok":
            out.append(_mm("SpikeTrain", "SpikeTrain([0.1], %r) (a scalar edge) raised %s" % (e, s)))
        elif s.t_start != 0.0 or s.t_end != float(e):
            out.append(_mm("SpikeTrain", "SpikeTrain([0.1], %r) has edges [%r, %r]" % (e, s.t_start, s.t_end)))
    return n, out


@checker("coll")
def chk_coll(rec, be):
    out = []
    n = 0
    ts, te = rec["ts"], rec["te"]
    res = rec["res"]
    for sg in (1.0, 2.0 ** -10):
        sts = [train(s, ts, te, sg) for s in rec["tr"]]
        # merge keeps the edges of the FIRST train: give the others different edges
        for k in range(1, len(sts)):
            sts[k].t_start -= 1.0 * sg
            sts[k].t_end += 2.0 * sg
        snap = [s.spikes.copy() for s in sts]
        hdr = "trains=%s [%s,%s] s=%g" % (rec["tr"], ts, te, sg)
        st, r = call(pyspike.merge_spike_trains, sts)
        n += 1
        sub = "merge_spike_trains"
        if st != "ok":
            out.append(_mm(sub, "%s %s raised %s" % (sub, hdr, r)))
        else:
            exp = [float(v) * sg for v in res["merged"]]
            if list(map(float, r.spikes)) != exp or r.t_start != ts * sg or r.t_end != te * sg:
                out.append(_mm(sub, "%s %s: %s on [%r,%r] expected %s on [%r,%r]" % (
                    sub, hdr, fl(r.spikes), r.t_start, r.t_end, exp, ts * sg, te * sg)))
        if any(not np.array_equal(s.spikes, sn) for s, sn in zip(sts, snap)):
            out.append(_mm(sub, "%s %s: merge modified its inputs" % (sub, hdr)))
        if st == "ok" and len(r.spikes):
            r.spikes += 1.0         # the merged train must own its array
            if any(not np.array_equal(s.spikes, sn) for s, sn in zip(sts, snap)):
                out.append(_mm(sub, "%s %s: the merged train shares its array with an input" % (sub, hdr)))
        for k in range(1, len(sts)):
            sts[k].t_start, sts[k].t_end = ts * sg, te * sg
        b = float(fr(rec["bin"])) * sg
        st, r = call(pyspike.psth, sts, b)
        n += 1
        sub = "psth"
        hdr += " bin=%g" % (b / sg)
        if st != "ok":
            out.append(_mm(sub, "%s %s raised %s" % (sub, hdr, r)))
            continue
        ex = [float(fr(v)) * sg for v in res["x"]]
        ey = [float(v) for v in res["y"]]
        gx, gy = np.asarray(r.x, float), np.asarray(r.y, float)
        if len(gx) != len(ex) or not all(close(u, v, sg) for u, v in zip(gx, ex)) or list(gy) != ey:
            out.append(_mm(sub, "%s %s: bins %s counts %s expected %s %s" % (sub, hdr, fl(gx), fl(gy), ex, ey)))
    return n, out

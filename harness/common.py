"""Shared helpers: paths, exact rationals, the single float comparator (DESIGN.md 3.4)."""
import json
import os
import shutil
import sys
import tempfile
from fractions import Fraction

VERIF = os.path.dirname(os.path.dirname(os.path.abspath(__file__)))
REPO = os.environ.get("VERIF_REPO", "/repo")
SPEC = os.path.join(VERIF, "spec")
EVID = os.environ.get("VERIF_EVID", os.path.join(VERIF, "evidence"))
REPLAYS = os.path.join(EVID, "replays")
TOL = 1e-10


class MachineryError(Exception):
    """exit code 2: the check could not be carried out (never a verdict)"""


def fr(x):
    """JSON rational [n, d] / int / Fraction -> Fraction"""
    if isinstance(x, Fraction):
        return x
    if isinstance(x, (list, tuple)):
        if len(x) != 2:
            raise MachineryError("not a rational: %r" % (x,))
        if x[1] == 0:
            raise MachineryError("rational with zero denominator: %r" % (x,))
        return Fraction(x[0], x[1])
    return Fraction(x)


def frl(xs):
    return [fr(x) for x in xs]


def is_finite(r):
    try:
        r = float(r)
    except Exception:
        return False
    return r == r and r not in (float("inf"), float("-inf"))


def close(r, e, scale=1.0):
    """observed double r equals exact value e (Fraction / int / float) up to rounding"""
    if not is_finite(r):
        return False
    e = float(e)
    return abs(float(r) - e) <= TOL * max(scale, abs(e))


def close_seq(rs, es, scale=1.0):
    rs = list(rs)
    es = list(es)
    if len(rs) != len(es):
        return False
    return all(close(r, e, scale) for r, e in zip(rs, es))


def fl(xs):
    """list of floats for reports"""
    out = []
    for x in xs:
        try:
            out.append(float(x))
        except Exception:
            out.append(repr(x))
    return out


def scratch(prefix="pyspike_verif_"):
    return tempfile.mkdtemp(prefix=prefix)


def rmtree(p):
    shutil.rmtree(p, ignore_errors=True)


def jdump(o):
    def default(x):
        if isinstance(x, Fraction):
            return [x.numerator, x.denominator]
        try:
            import numpy as np
            if isinstance(x, np.ndarray):
                return x.tolist()
            if isinstance(x, (np.floating,)):
                return float(x)
            if isinstance(x, (np.integer,)):
                return int(x)
            if isinstance(x, (np.bool_,)):
                return bool(x)
        except ImportError:
            pass
        return repr(x)
    return json.dumps(o, default=default, sort_keys=True)

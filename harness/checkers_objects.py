"""Binding of Objects.tla (coverage extension X02): SpikeTrain objects and the once-only fallback warning."""
import contextlib
import io

import numpy as np

import impl
from impl import pyspike, call
from replay import checker

WARN = "Warning: Cython implementation not found"


def _mm(sub, text, observed=None, expected=None):
    return {"sub": sub, "text": text, "observed": observed, "expected": expected}


def _build(o):
    if not o["live"]:
        return None
    return pyspike.SpikeTrain(np.array([float(v) for v in o["sp"]], dtype=float), [o["ts"], o["te"]])


def _measure(fn, a, b):
    if fn == "add_pwc":
        f = pyspike.PieceWiseConstFunc(np.array([a.t_start, a.t_end]), np.array([1.0]))
        return f.add(pyspike.PieceWiseConstFunc(np.array([a.t_start, a.t_end]), np.array([2.0])))
    if fn == "add_pwl":
        f = pyspike.PieceWiseLinFunc(np.array([a.t_start, a.t_end]), np.array([1.0]), np.array([2.0]))
        return f.add(pyspike.PieceWiseLinFunc(np.array([a.t_start, a.t_end]), np.array([0.0]), np.array([1.0])))
    if fn == "add_disc":
        f = pyspike.DiscreteFunc(np.array([a.t_start, a.t_end]), np.array([0.0, 0.0]), np.array([1.0, 1.0]))
        return f.add(pyspike.DiscreteFunc(np.array([a.t_start, a.t_end]), np.array([0.0, 0.0]), np.array([1.0, 1.0])))
    return getattr(pyspike, fn)(a, b)


@checker("objects")
def chk_objects(rec, be):
    out = []
    op = rec["op"]
    f = op["f"]
    sub = "session[%s]" % be
    hdr = "heap=%s warned=%s op=%s" % ([(o["sp"], o["ts"], o["te"]) if o["live"] else None for o in rec["pre"]], rec["warned"],
                                        {k: v for k, v in op.items() if v not in (0, "", [], True) or k == "f"})
    heap = [_build(o) for o in rec["pre"]]
    pyspike.disable_backend_warning = bool(rec["warned"])
    d = op["d"] - 1
    buf = io.StringIO()

    def do():
        if f == "new":
            po = rec["post"][d]
            edges = (po["ts"], po["te"]) if op["form"] == "pair" else po["te"]
            heap[d] = pyspike.SpikeTrain([float(v) for v in op["sp"]], edges, is_sorted=bool(op["sorted"]))
        elif f == "sort":
            heap[d].sort()
        elif f == "copy":
            heap[d] = heap[op["s"] - 1].copy()
        elif f == "write":
            heap[d].spikes[op["k"] - 1] = float(op["v"])
        elif f == "disable":
            pyspike.disable_backend_warning = True
        else:
            _measure(f, heap[d], heap[op["s"] - 1])
    with contextlib.redirect_stdout(buf):
        st, r = call(do)
    n = 1
    if st != "ok":
        return n, [_mm(sub, "%s %s raised %s" % (sub, hdr, r))]
    printed = buf.getvalue().count(WARN)
    if printed != rec["printed"]:
        out.append(_mm(sub, "%s %s: the fallback warning was printed %d time(s), the specification says %d" % (sub, hdr, printed, rec["printed"]),
                       printed, rec["printed"]))
    if bool(pyspike.disable_backend_warning) != bool(rec["warned2"]):
        out.append(_mm(sub, "%s %s: disable_backend_warning is %r afterwards, the specification says %s" % (
            sub, hdr, pyspike.disable_backend_warning, rec["warned2"])))
    for k, (t, o) in enumerate(zip(heap, rec["post"])):
        if (t is None) != (not o["live"]):
            out.append(_mm(sub, "%s %s: object %d exists=%s, specified %s" % (sub, hdr, k + 1, t is not None, o["live"])))
            continue
        if t is None:
            continue
        got = ([float(v) for v in t.spikes], float(t.t_start), float(t.t_end))
        exp = ([float(v) for v in o["sp"]], float(o["ts"]), float(o["te"]))
        if got != exp:
            out.append(_mm(sub, "%s %s: object %d is %s, specified %s" % (sub, hdr, k + 1, got, exp), got, exp))
            continue
        if t.spikes.dtype != np.float64:
            out.append(_mm(sub, "%s %s: object %d stores its spikes as %s" % (sub, hdr, k + 1, t.spikes.dtype)))
        if len(t) != len(o["sp"]) or any(float(t[i]) != float(o["sp"][i]) for i in range(len(o["sp"]))):
            out.append(_mm(sub, "%s %s: len / indexing of object %d disagree with its spikes" % (sub, hdr, k + 1)))
        ne = [float(v) for v in t.get_spikes_non_empty()]
        if ne != [float(v) for v in rec["ne"][k]]:
            out.append(_mm(sub, "%s %s: get_spikes_non_empty of object %d = %s, specified %s" % (sub, hdr, k + 1, ne, rec["ne"][k])))
        n += 1
    # a copy is independent of its source, in both directions
    if f == "copy" and not out:
        s = op["s"] - 1
        for w, o in ((d, s), (s, d)):
            if len(heap[w].spikes):
                snap = heap[o].spikes.copy()
                heap[w].spikes[0] += 1.0
                heap[w].t_end += 1.0
                if not np.array_equal(heap[o].spikes, snap) or heap[o].t_end != rec["post"][o]["te"]:
                    out.append(_mm(sub, "%s %s: writing to object %d changes object %d (the copy shares data)" % (sub, hdr, w + 1, o + 1)))
                heap[w].spikes[0] -= 1.0
                heap[w].t_end -= 1.0
    pyspike.disable_backend_warning = True
    return n, out

"""One function per property: runs TLC on the specification, binds it to the code."""
import os

import replay
import tlcrun
from tlcrun import run_tlc, tla_set
from common import MachineryError

QUICK = "quick"


def _nproc():
    return min(16, os.cpu_count() or 1)


# ---------------------------------------------------------------------------------------
def _neg_(c):
    c = dict(c)
    if isinstance(c.get("TS"), int) and c["TS"] < 0:
        c["TS"] = "<- Neg%d" % (-c["TS"])
    return c


def c01(ctx):
    """ISI-profile equals the definition"""
    if ctx.tier == QUICK:
        cfgs = [dict(TS=0, TE=5, MaxSp=6, MRTSQ=tla_set([0, 6, 16])),
                dict(TS=3, TE=7, MaxSp=5, MRTSQ=tla_set([0, 2, 30]))]
    else:
        cfgs = [dict(TS=0, TE=7, MaxSp=8, MRTSQ=tla_set([0, 2, 6, 16, 40])),
                dict(TS=3, TE=8, MaxSp=6, MRTSQ=tla_set([0, 6, 30])),
                dict(TS=0, TE=10, MaxSp=3, MRTSQ=tla_set([0, 6, 16]))]
    invs = ["Correct", "InRange", "CursorBounds", "NuPositive", "Terminates", "Export"]
    for c in cfgs:
        res = run_tlc("IsiScan", c, invs, workers=8, timeout=3000)
        ctx.add_tlc(res, "ISI scan = definition on all train pairs x MRTS")
        if res.violated:
            continue
        for r in res.exports[:2]:
            ctx.sample(r)
        for r in res.exports:
            ctx.count_path("/".join(r["path"]))
        replay.run(ctx, "isi", res.exports)
    ctx.assumptions += ["spike times on an integer grid, MRTS on the quarter grid; values compared with tolerance 1e-10",
                        "the compiled configuration executes the .pyx sources by transliteration (harness/pyxshim.py)"]
    return ctx.finish(rule="every ordered pair of trains (subsets of the grid, <= MaxSp spikes) x MRTS; "
                           "a case is one TLC terminal state; distinct = distinct branch paths of the scan")


def c02(ctx):
    """SPIKE-profile equals the definition (plain, RI, adaptive)"""
    if ctx.tier == QUICK:
        cfgs = [dict(TS=0, TE=5, MaxSp=6, MRTSQ=tla_set([0, 10]), RISet="{FALSE, TRUE}"),
                dict(TS=-2, TE=2, MaxSp=3, MRTSQ=tla_set([6]), RISet="{FALSE, TRUE}")]
    else:
        cfgs = [dict(TS=0, TE=6, MaxSp=7, MRTSQ=tla_set([0, 6, 10, 20]), RISet="{FALSE, TRUE}"),
                dict(TS=0, TE=7, MaxSp=8, MRTSQ=tla_set([0]), RISet="{FALSE, TRUE}"),
                dict(TS=-3, TE=3, MaxSp=4, MRTSQ=tla_set([0, 6]), RISet="{FALSE, TRUE}"),
                dict(TS=0, TE=10, MaxSp=3, MRTSQ=tla_set([0, 10]), RISet="{FALSE, TRUE}")]
    invs = ["Correct", "InRange", "ZeroAtShared", "MinDistIsGlobal", "CursorBounds", "Terminates", "Export"]
    for c in cfgs:
        c = dict(c)
        c["DevF9"] = "FALSE"
        c = _neg_(c)
        res = run_tlc("SpikeScan", c, invs, workers=16, timeout=6000)
        ctx.add_tlc(res, "SPIKE scan = definition on all train pairs x MRTS x RI")
        if res.violated:
            continue
        for r in res.exports[:2]:
            ctx.sample(r)
        for r in res.exports:
            ctx.count_path("/".join(r["path"]))
        replay.run(ctx, "spike", res.exports)
    ctx.assumptions += ["spike times on an integer grid, MRTS on the quarter grid; values compared with tolerance 1e-10",
                        "a piecewise-linear profile is determined by its one-sided limits at the breakpoints (evaluation in between is C10)",
                        "the compiled configuration executes the .pyx sources by transliteration (harness/pyxshim.py)"]
    return ctx.finish(rule="every ordered pair of trains (subsets of the grid, <= MaxSp spikes) x MRTS x RI; "
                           "a case is one TLC terminal state; distinct = distinct branch paths of the scan")


def _neg(c):
    c = dict(c)
    if isinstance(c.get("TS"), int) and c["TS"] < 0:
        c["TS"] = "<- Neg%d" % (-c["TS"])
    return c


SYNC_INVS = ["Correct", "OrderCorrect", "DirCorrect", "OneToOneInv", "Mutual", "PartnerIsPrevious",
             "HitsAreCoinc", "TauBounded", "AccCorrect", "InRange", "SwapInv", "Terminates", "Export"]


def _sync_cfgs(tier):
    if tier == QUICK:
        return [dict(TS=0, TE=5, MaxSp=6, MRTSQ=tla_set([0, 12]), TauQ=tla_set([0, 2, 4])),
                dict(TS=-2, TE=5, MaxSp=3, MRTSQ=tla_set([0, 8]), TauQ=tla_set([0, 3]))]
    return [dict(TS=0, TE=6, MaxSp=7, MRTSQ=tla_set([0, 8, 12, 24]), TauQ=tla_set([0, 2, 4, 8])),
            dict(TS=-2, TE=6, MaxSp=3, MRTSQ=tla_set([0, 8, 12]), TauQ=tla_set([0, 2, 3, 6])),
            dict(TS=0, TE=9, MaxSp=3, MRTSQ=tla_set([0, 12]), TauQ=tla_set([0, 4, 6]))]


def _run_sync(ctx, checkers, what):
    for c in _sync_cfgs(ctx.tier):
        c = _neg(c)
        c["DevF1"] = "FALSE"
        res = run_tlc("SyncScan", c, SYNC_INVS, workers=16, timeout=6000)
        ctx.add_tlc(res, what)
        if res.violated:
            continue
        for r in res.exports[:2]:
            ctx.sample(r)
        for r in res.exports:
            ctx.count_path("/".join(r["path"]))
        for ck in checkers:
            replay.run(ctx, ck, res.exports)
    return


def c03(ctx):
    """SPIKE-Sync profile marks exactly the mutually coincident spikes"""
    _run_sync(ctx, ["sync"], "coincidence scan = pairwise definition; one-to-one, mutual, partner = previous event")
    for c in _sync_cfgs(ctx.tier):
        c = _neg(c)
        c["DevF1"] = "FALSE"
        res = run_tlc("SingleScan", c, ["Correct", "CursorBounds", "Terminates", "Export"], workers=16, timeout=6000)
        ctx.add_tlc(res, "per-spike indicator scan = pairwise definition")
        if res.violated:
            continue
        ctx.sample(res.exports[len(res.exports) // 2])
        for r in res.exports:
            ctx.count_path("single:" + "/".join(r["path"]))
        replay.run(ctx, "single", res.exports)
    ctx.assumptions += ["integer spike times, MRTS and max_tau on the quarter grid so that dt = tau ties are exact in floats",
                        "the compiled configuration executes the .pyx sources by transliteration (harness/pyxshim.py)"]
    return ctx.finish(rule="every ordered pair of trains x MRTS x max_tau; a case is one TLC terminal state of "
                           "SyncScan / SingleScan; distinct = distinct branch paths")


def c04(ctx):
    """order / directionality sign convention (bivariate part; multivariate part in the session engine)"""
    _run_sync(ctx, ["order"], "order / directionality scans = pairwise definition; swap negates")
    ctx.assumptions += ["integer spike times, MRTS and max_tau on the quarter grid",
                        "the compiled configuration executes the .pyx sources by transliteration (harness/pyxshim.py)"]
    return ctx.finish(rule="every ordered pair of trains x MRTS x max_tau; a case is one TLC terminal state; "
                           "distinct = distinct branch paths")


PROPS = {"C01": c01, "C02": c02, "C03": c03, "C04": c04}

"""One function per property: runs TLC on the specification, binds it to the code."""
import os

import replay
import tlcrun
from tlcrun import run_tlc, tla_set
from common import MachineryError

QUICK = "quick"


def _nproc():
    return min(16, os.cpu_count() or 1)


# ---------------------------------------------------------------------------------------
def c01(ctx):
    """ISI-profile equals the definition"""
    if ctx.tier == QUICK:
        cfgs = [dict(TS=0, TE=5, MaxSp=6, MRTSQ=tla_set([0, 6, 16])),
                dict(TS=3, TE=7, MaxSp=5, MRTSQ=tla_set([0, 2, 30]))]
    else:
        cfgs = [dict(TS=0, TE=7, MaxSp=8, MRTSQ=tla_set([0, 2, 6, 16, 40])),
                dict(TS=3, TE=8, MaxSp=6, MRTSQ=tla_set([0, 6, 30])),
                dict(TS=0, TE=10, MaxSp=3, MRTSQ=tla_set([0, 6, 16]))]
    invs = ["Correct", "InRange", "CursorBounds", "NuPositive", "Terminates", "Export"]
    for c in cfgs:
        res = run_tlc("IsiScan", c, invs, workers=8, timeout=3000)
        ctx.add_tlc(res, "ISI scan = definition on all train pairs x MRTS")
        if res.violated:
            continue
        for r in res.exports[:2]:
            ctx.sample(r)
        for r in res.exports:
            ctx.count_path("/".join(r["path"]))
        replay.run(ctx, "isi", res.exports)
    ctx.assumptions += ["spike times on an integer grid, MRTS on the quarter grid; values compared with tolerance 1e-10",
                        "the compiled configuration executes the .pyx sources by transliteration (harness/pyxshim.py)"]
    return ctx.finish(rule="every ordered pair of trains (subsets of the grid, <= MaxSp spikes) x MRTS; "
                           "a case is one TLC terminal state; distinct = distinct branch paths of the scan")


PROPS = {"C01": c01}

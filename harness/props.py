"""One function per property: runs TLC on the specification, binds it to the code."""
import os

import replay
import tlcrun
from tlcrun import run_tlc, tla_set
from common import MachineryError

QUICK = "quick"


def _nproc():
    return min(16, os.cpu_count() or 1)


# ---------------------------------------------------------------------------------------
def _neg_(c):
    """a cfg file cannot hold a negative number: substitute the operators Neg1..Neg4 of the modules"""
    c = dict(c)
    for k in ("TS", "TE", "T0", "T", "VLo", "VHi"):
        if isinstance(c.get(k), int) and c[k] < 0:
            c[k] = "<- Neg%d" % (-c[k])
    return c


def _effective(ctx, ex, varied, results, label):
    """vacuity guard for keyword values: a value of `varied` is EFFECTIVE if it changes the specified result of
    at least one exported case (same trains, same other keywords) with respect to the value 0; a run whose
    non-zero values are all ineffective exercises the keyword plumbing but nothing it could break"""
    from common import fr
    groups = {}
    for r in ex:
        key = repr([r[k] for k in ("a", "b", "ts", "te", "mrts", "mtau", "ri") if k in r and k != varied])
        groups.setdefault(key, {})[str(fr(r[varied]))] = repr([r.get(k) for k in results])
    vals = sorted({v for g in groups.values() for v in g}, key=lambda v: float(fr(v)) if "/" not in v else float(int(v.split("/")[0])) / int(v.split("/")[1]))
    if len(vals) < 2:
        return
    base = "0" if "0" in vals else vals[0]
    eff = sorted({v for g in groups.values() for v in g if v != base and base in g and g[v] != g[base]})
    note = ctx.notes.setdefault("effective_keyword_values", {})
    note["%s/%s" % (label, varied)] = {"values": vals, "change_some_result": eff}
    if not eff:
        raise MachineryError("vacuous keyword: no value of %s in %s changes any specified result of %s" % (varied, vals, label))


def c01(ctx):
    """ISI-profile equals the definition"""
    if ctx.tier == QUICK:
        cfgs = [dict(TS=0, TE=5, MaxSp=6, MRTSQ=tla_set([0, 6, 16])),
                dict(TS=3, TE=7, MaxSp=5, MRTSQ=tla_set([0, 2, 30])),
                dict(TS=-3, TE=-1, MaxSp=3, MRTSQ=tla_set([0, 12])),
                dict(TS=-2, TE=2, MaxSp=3, MRTSQ=tla_set([0, 40]))]
    else:
        cfgs = [dict(TS=0, TE=7, MaxSp=8, MRTSQ=tla_set([0, 2, 6, 16, 40])),
                dict(TS=3, TE=8, MaxSp=6, MRTSQ=tla_set([0, 6, 30])),
                dict(TS=0, TE=10, MaxSp=3, MRTSQ=tla_set([0, 6, 16]))]
    invs = ["Correct", "InRange", "CursorBounds", "NuPositive", "Terminates", "Export"]
    for c in cfgs:
        c = _neg_(c)
        res = run_tlc("IsiScan", c, invs, workers=16, timeout=3000)
        ctx.add_tlc(res, "ISI scan = definition on all train pairs x MRTS")
        if res.violated:
            continue
        for r in res.exports[:2]:
            ctx.sample(r)
        for r in res.exports:
            ctx.count_path("/".join(r["path"]))
            ctx.count_actions(r["path"], "IsiScan.")
        _effective(ctx, res.exports, "mrts", ["x", "y"], "IsiScan[%s]" % res.constants.get("MRTSQ"))
        replay.run(ctx, "isi", res.exports)
    ctx.require_actions(["start", "adv1", "adv2", "both", "trim", "close"], "IsiScan.")
    import traces as _traces
    _traces.validate_scan(ctx, "isi", ctx.seed + 101, 400 if ctx.tier == QUICK else 6000)
    ctx.assumptions += ["spike times on an integer grid, MRTS on the quarter grid; values compared with tolerance 1e-10",
                        "the compiled configuration executes the .pyx sources by transliteration (harness/pyxshim.py)"]
    return ctx.finish(rule="every ordered pair of trains (subsets of the grid, <= MaxSp spikes) x MRTS; "
                           "a case is one TLC terminal state; distinct = distinct branch paths of the scan")


def c02(ctx):
    """SPIKE-profile equals the definition (plain, RI, adaptive)"""
    if ctx.tier == QUICK:
        cfgs = [dict(TS=0, TE=5, MaxSp=6, MRTSQ=tla_set([0, 10]), RISet="{FALSE, TRUE}"),
                dict(TS=-2, TE=2, MaxSp=3, MRTSQ=tla_set([6, 24]), RISet="{FALSE, TRUE}")]
    else:
        cfgs = [dict(TS=0, TE=6, MaxSp=7, MRTSQ=tla_set([0, 6, 10, 20]), RISet="{FALSE, TRUE}"),
                dict(TS=0, TE=7, MaxSp=8, MRTSQ=tla_set([0]), RISet="{FALSE, TRUE}"),
                dict(TS=-3, TE=3, MaxSp=4, MRTSQ=tla_set([0, 16]), RISet="{FALSE, TRUE}"),
                dict(TS=0, TE=10, MaxSp=3, MRTSQ=tla_set([0, 10]), RISet="{FALSE, TRUE}")]
    invs = ["Correct", "InRange", "ZeroAtShared", "MinDistIsGlobal", "CursorBounds", "Terminates", "Export"]
    for c in cfgs:
        c = dict(c)
        c["DevF9"] = "FALSE"
        c = _neg_(c)
        res = run_tlc("SpikeScan", c, invs, workers=16, timeout=6000)
        ctx.add_tlc(res, "SPIKE scan = definition on all train pairs x MRTS x RI")
        if res.violated:
            continue
        for r in res.exports[:2]:
            ctx.sample(r)
        for r in res.exports:
            ctx.count_path("/".join(r["path"]))
            ctx.count_actions(r["path"], "SpikeScan.")
        if len(set(repr(r["mrts"]) for r in res.exports)) > 1:
            _effective(ctx, res.exports, "mrts", ["x", "y1", "y2"], "SpikeScan[%s]" % res.constants.get("MRTSQ"))
        replay.run(ctx, "spike", res.exports)
    ctx.require_actions(["start", "adv1", "adv2", "both", "trim", "close"], "SpikeScan.")
    import traces as _traces
    _traces.validate_scan(ctx, "spike", ctx.seed + 102, 300 if ctx.tier == QUICK else 4000)
    ctx.assumptions += ["spike times on an integer grid, MRTS on the quarter grid; values compared with tolerance 1e-10",
                        "a piecewise-linear profile is determined by its one-sided limits at the breakpoints (evaluation in between is C10)",
                        "the compiled configuration executes the .pyx sources by transliteration (harness/pyxshim.py)"]
    return ctx.finish(rule="every ordered pair of trains (subsets of the grid, <= MaxSp spikes) x MRTS x RI; "
                           "a case is one TLC terminal state; distinct = distinct branch paths of the scan")


def _neg(c):
    return _neg_(c)


SYNC_INVS = ["Correct", "OrderCorrect", "DirCorrect", "OneToOneInv", "Mutual", "PartnerIsPrevious",
             "HitsAreCoinc", "TauBounded", "AccCorrect", "InRange", "SwapInv", "Terminates", "Export"]


def _sync_cfgs(tier):
    if tier == QUICK:
        # max_tau from well below an ISI to beyond the recording length (TauQ are quarters)
        return [dict(TS=0, TE=5, MaxSp=6, MRTSQ=tla_set([0, 24]), TauQ=tla_set([0, 6, 14])),
                dict(TS=-2, TE=5, MaxSp=3, MRTSQ=tla_set([0, 30]), TauQ=tla_set([0, 4, 40]))]
    return [dict(TS=0, TE=6, MaxSp=7, MRTSQ=tla_set([0, 8, 12, 24]), TauQ=tla_set([0, 2, 4, 8, 16])),
            dict(TS=-2, TE=6, MaxSp=3, MRTSQ=tla_set([0, 8, 24]), TauQ=tla_set([0, 2, 3, 6, 20, 100])),
            dict(TS=0, TE=9, MaxSp=3, MRTSQ=tla_set([0, 24]), TauQ=tla_set([0, 4, 6, 30]))]


def _run_sync(ctx, checkers, what):
    for c in _sync_cfgs(ctx.tier):
        c = _neg(c)
        c["DevF1"] = "FALSE"
        res = run_tlc("SyncScan", c, SYNC_INVS, workers=16, timeout=6000)
        ctx.add_tlc(res, what)
        if res.violated:
            continue
        for r in res.exports[:2]:
            ctx.sample(r)
        for r in res.exports:
            ctx.count_path("/".join(r["path"]))
            ctx.count_actions(r["path"], "SyncScan.")
        for kwd in ("mrts", "mtau"):
            _effective(ctx, res.exports, kwd, ["x", "c", "mp"], "SyncScan[%s %s]" % (res.constants.get("MRTSQ"), res.constants.get("TauQ")))
        for ck in checkers:
            replay.run(ctx, ck, res.exports)
    ctx.require_actions(["adv1", "adv2", "both", "frame", "empty"], "SyncScan.")
    return


def c03(ctx):
    """SPIKE-Sync profile marks exactly the mutually coincident spikes"""
    _run_sync(ctx, ["sync"], "coincidence scan = pairwise definition; one-to-one, mutual, partner = previous event")
    for c in _sync_cfgs(ctx.tier):
        c = _neg(c)
        c["DevF1"] = "FALSE"
        res = run_tlc("SingleScan", c, ["Correct", "CursorBounds", "Terminates", "Export"], workers=16, timeout=6000)
        ctx.add_tlc(res, "per-spike indicator scan = pairwise definition")
        if res.violated:
            continue
        ctx.sample(res.exports[len(res.exports) // 2])
        for r in res.exports:
            ctx.count_path("single:" + "/".join(r["path"]))
            ctx.count_actions(r["path"], "SingleScan.")
        replay.run(ctx, "single", res.exports)
    ctx.require_actions(["move", "prev", "prev-hit", "next", "next-hit", "skip"], "SingleScan.")
    # the public routes of the two scans: the filter (per-spike indicator) and the list form of the profile,
    # with a threshold and a window bound that change coincidences
    q = ctx.tier == QUICK
    _multi(ctx, dict(N=3, TE=5, MaxSp=2, ThrCodes="{1, 12}", MRTS4=24, TAU4=0, Sample=5 if q else 12), ["filter", "sync_profile", "sync"],
           ["FilterEqualsProfile", "PooledEvents"], ["multi_abs", "filter_rel"],
           "filter / list forms with MRTS = 6 (window floor 1.5) and max_tau = 4: the indicator used for filtering agrees with the profile")
    _multi(ctx, dict(N=2, TE=6, MaxSp=3, ThrCodes="{1}", MRTS4=0, TAU4=4, IdxMode='"none"'), ["sync_profile", "sync", "filter"],
           ["PooledEvents"], ["multi_abs", "multi_forms"], "two trains handed over as a list, max_tau = 1")
    _multi(ctx, dict(N=2, TE=9, MaxSp=3, ThrCodes="{1}", Sample=5 if q else 12), ["sync_profile", "sync"], [], ["multi_auto"],
           "MRTS='auto' in the two-train and list forms, also on recordings of different length (threshold of the reconciled pair)")
    import traces as _traces
    _traces.validate_scan(ctx, "sync", ctx.seed + 103, 300 if ctx.tier == QUICK else 4000)
    ctx.assumptions += ["integer spike times, MRTS and max_tau on the quarter grid so that dt = tau ties are exact in floats",
                        "the compiled configuration executes the .pyx sources by transliteration (harness/pyxshim.py)"]
    return ctx.finish(rule="every ordered pair of trains x MRTS x max_tau; a case is one TLC terminal state of "
                           "SyncScan / SingleScan; distinct = distinct branch paths")


def c04(ctx):
    """order / directionality sign convention (bivariate part; multivariate part in the session engine)"""
    _run_sync(ctx, ["order"], "order / directionality scans = pairwise definition; swap negates")
    q = ctx.tier == QUICK
    dfns = ["order_profile", "order", "dir_matrix", "dir_values"]
    _multi(ctx, dict(N=3, IdxMode='"all"', Sample=5 if q else 10, TAU4=4), dfns, ["Antisymmetric", "SynfireFromMatrix", "PooledEvents"],
           ["multi_abs", "dir_rel"], "multivariate order / directionality: every ordered index selection")
    _multi(ctx, dict(N=4, IdxMode='"all"', Sample=2 if q else 4, TAU4=0, MRTS4=24), dfns, ["Antisymmetric", "SynfireFromMatrix"],
           ["multi_abs", "dir_rel"], "N = 4")
    _multi(ctx, dict(N=3, TE=9, MaxSp=3, Sample=3 if q else 8, IdxMode='"pairs"'), dfns, [], ["multi_auto"],
           "MRTS='auto' with an index selection: matrix, values, order and synfire indicator use the same (whole-list) threshold")
    ctx.assumptions += ["integer spike times, MRTS and max_tau on the quarter grid",
                        "the compiled configuration executes the .pyx sources by transliteration (harness/pyxshim.py)"]
    return ctx.finish(rule="every ordered pair of trains x MRTS x max_tau; a case is one TLC terminal state; "
                           "distinct = distinct branch paths")


def _run_rel(ctx, invs, ck, cfgs, what, backends=("py", "shim")):
    for c in cfgs:
        extra = {"_shifts": [k - 5 for k in c.pop("_shiftsp", [2, 7])], "_scales": c.pop("_scales", [3]),
                 "_mrtsq": c.pop("_mrtsq"), "_tauq": c.pop("_tauq")}
        c = _neg(c)
        c.update(MRTSQ=tla_set(extra["_mrtsq"]), TauQ=tla_set(extra["_tauq"]),
                 ShiftsP=tla_set([k + 5 for k in extra["_shifts"]]), Scales=tla_set(extra["_scales"]))
        res = run_tlc("Relations", c, invs + ["Export"], workers=16, timeout=6000)
        ctx.add_tlc(res, what)
        if res.violated:
            continue
        for r in res.exports[1:3]:
            ctx.sample(r)
        for r in res.exports:
            r.update(extra)
            ctx.count_path("%d/%d/%s/%s/%s" % (len(r["a"]), len(r["b"]), r["mrts"], r["mtau"], r["ri"]))
        replay.run(ctx, ck, res.exports, backends=backends, chunk=150)


def c07(ctx):
    """range, symmetry, identity"""
    if ctx.tier == QUICK:
        cfgs = [dict(TS=0, TE=5, MaxSp=6, RISet="{FALSE, TRUE}", _mrtsq=[0, 18], _tauq=[0, 6])]
    else:
        cfgs = [dict(TS=0, TE=6, MaxSp=7, RISet="{FALSE, TRUE}", _mrtsq=[0, 16], _tauq=[0, 6]),
                dict(TS=-2, TE=6, MaxSp=3, RISet="{FALSE}", _mrtsq=[0, 10, 40], _tauq=[0, 6])]
    _run_rel(ctx, ["Symmetric", "Identity", "InRange"], "rel_c07", cfgs,
             "definitions are symmetric, zero / one on identical trains, in range")
    # the range clause on inputs beyond the grid: InRange is an invariant of the scan modules and is
    # evaluated by TLC on recorded executions (T = 60, <= 20 spikes) of the real code
    import traces as _traces
    _traces.validate_scan(ctx, "isi", ctx.seed + 107, 150 if ctx.tier == QUICK else 2000)
    _traces.validate_scan(ctx, "spike", ctx.seed + 108, 150 if ctx.tier == QUICK else 2000)
    ctx.assumptions += ["relations model-checked on the declarative definitions (Relations.tla); scan = definition is C01-C04",
                        "code compared with itself (swap, self, copy) and against the range; tolerance 1e-10"]
    return ctx.finish(rule="every ordered pair of trains x MRTS x RI x max_tau; one case = one TLC state of Relations; "
                           "distinct = distinct (spike counts, keyword) classes")


def c08(ctx):
    """shift / scale invariance, mirror symmetry"""
    if ctx.tier == QUICK:
        cfgs = [dict(TS=0, TE=5, MaxSp=6, RISet="{FALSE}", _mrtsq=[0, 18], _tauq=[0, 6], _shiftsp=[2, 7], _scales=[3]),
                dict(TS=0, TE=5, MaxSp=2, RISet="{TRUE}", _mrtsq=[6], _tauq=[10], _shiftsp=[4], _scales=[2])]
    else:
        cfgs = [dict(TS=0, TE=6, MaxSp=5, RISet="{FALSE}", _mrtsq=[0, 18], _tauq=[0, 6], _shiftsp=[2, 7], _scales=[3]),
                dict(TS=-2, TE=6, MaxSp=3, RISet="{TRUE}", _mrtsq=[0, 6], _tauq=[0, 6], _shiftsp=[0, 6], _scales=[2, 5])]
    _run_rel(ctx, ["ShiftInv", "ScaleInv", "MirrorSym"], "rel_c08", cfgs,
             "definitions commute with shift / scale / mirror of the time axis")
    q = ctx.tier == QUICK
    tfns = ["isi_profile", "spike_profile", "sync_profile", "order_profile", "isi_distance", "spike_distance", "sync",
            "order", "isi_matrix", "sync_matrix", "dir_matrix", "dir_values"]
    _multi(ctx, dict(N=3, IdxMode='"none"', Sample=6 if q else 12, IvCodes="{0, 206}", MRTS4=12, TAU4=4), tfns, [],
           ["multi_transform"], "lists of trains under shift / scale / mirror (multivariate forms)")
    ctx.assumptions += ["integer shifts and scale factors on the spec side; the code is additionally run with dyadic factors 1/2, 1/4 and a shift of 1/2 (exact in floats)"]
    return ctx.finish(rule="every ordered pair of trains x keywords x {2 shifts, scale, 1/2, 1/4, shift 1/2, mirror}; "
                           "one case = one TLC state of Relations")


def c15(ctx):
    """MRTS monotone, no-op below all ISIs, 'auto' = pooled ISI threshold (bivariate part)"""
    if ctx.tier == QUICK:
        cfgs = [dict(TS=0, TE=5, MaxSp=6, RISet="{FALSE}", _mrtsq=[0, 2, 6, 10, 30], _tauq=[0]),
                dict(TS=0, TE=5, MaxSp=3, RISet="{TRUE}", _mrtsq=[0, 3, 12], _tauq=[6])]
    else:
        cfgs = [dict(TS=0, TE=6, MaxSp=5, RISet="{FALSE}", _mrtsq=[0, 2, 6, 10, 30], _tauq=[0]),
                dict(TS=-2, TE=6, MaxSp=3, RISet="{TRUE}", _mrtsq=[0, 8, 40], _tauq=[0, 6])]
    _run_rel(ctx, ["ZeroIsPlain", "Monotone", "BelowAllIsNoOp"], "rel_c15", cfgs,
             "definitions: MRTS=0 is the plain measure, values monotone in MRTS, no-op below all ISIs")
    q = ctx.tier == QUICK
    mfns = ["isi_profile", "spike_profile", "sync_profile", "isi_distance", "spike_distance", "sync", "isi_matrix",
            "spike_matrix", "sync_matrix", "order", "dir_matrix", "dir_values", "filter"]
    _multi(ctx, dict(N=3, IdxMode='"none"', Sample=6 if q else 12), mfns, [], ["multi_auto"],
           "lists: default_thresh^2 = pooled mean square of the spec; 'auto' = explicit threshold; monotone in MRTS")
    _multi(ctx, dict(N=3, IdxMode='"pairs"', Sample=4 if q else 8, TE=5), mfns[:9], [], ["multi_auto"],
           "index selections: the pool is the whole list that is handed over")
    # a longer recording with tight spikes, so that the automatic threshold changes coincidences
    _multi(ctx, dict(N=3, TE=9, MaxSp=3, Sample=6 if q else 14), ["sync_profile", "sync", "sync_matrix", "isi_distance",
                                                                   "order", "filter"], [], ["multi_auto"],
           "longer recording: the pooled threshold differs from the per-pair thresholds")
    _multi(ctx, dict(N=3, TE=9, MaxSp=3, Sample=4 if q else 10, IdxMode='"pairs"'),
           ["sync_profile", "sync", "sync_matrix", "isi_distance", "isi_profile", "isi_matrix", "order", "order_profile", "dir_matrix", "dir_values"],
           [], ["multi_auto"], "longer recording, index selections: the pool is the whole list, not the selection")
    ctx.assumptions += ["the irrational automatic threshold is compared as a double with sqrt of the exact pooled mean square"]
    return ctx.finish(rule="every ordered pair of trains x ordered pairs MRTS1 <= MRTS2 from the configured set; "
                           "one case = one TLC state of Relations")


def c16(ctx):
    """max_tau is an upper bound on the coincidence window"""
    if ctx.tier == QUICK:
        cfgs = [dict(TS=0, TE=5, MaxSp=6, RISet="{FALSE}", _mrtsq=[0, 12], _tauq=[0, 2, 4, 14]),
                dict(TS=0, TE=7, MaxSp=3, RISet="{FALSE}", _mrtsq=[0, 24], _tauq=[0, 2, 6, 20, 36])]
    else:
        cfgs = [dict(TS=0, TE=6, MaxSp=7, RISet="{FALSE}", _mrtsq=[0, 12, 28], _tauq=[0, 2, 4, 8, 18]),
                dict(TS=0, TE=9, MaxSp=3, RISet="{FALSE}", _mrtsq=[0, 8, 24], _tauq=[0, 2, 3, 6, 10, 26, 50])]
    _run_rel(ctx, ["TauBounded", "CoincGrowsWithTau"], "rel_c16", cfgs,
             "definitions: no coincidence at distance >= max_tau; None = 0; growing max_tau keeps coincidences")
    return ctx.finish(rule="every ordered pair of trains x MRTS x ordered pairs max_tau1 <= max_tau2; "
                           "one case = one TLC state of Relations")


def c12(ctx):
    """compiled backend (.pyx sources, transliterated) = pure-Python fallback; single-pass = profile average"""
    import impl
    # structural: every routine exists twice
    twins = [("cython_profiles", "isi_profile_cython", "python_backend", "isi_distance_python"),
             ("cython_profiles", "spike_profile_cython", "python_backend", "spike_distance_python"),
             ("cython_profiles", "coincidence_profile_cython", "python_backend", "coincidence_python"),
             ("cython_profiles", "coincidence_single_profile_cython", "python_backend", "coincidence_single_python"),
             ("cython_get_tau", "get_tau", "python_backend", "get_tau"),
             ("cython_add", "add_piece_wise_const_cython", "python_backend", "add_piece_wise_const_python"),
             ("cython_add", "add_piece_wise_lin_cython", "python_backend", "add_piece_wise_lin_python"),
             ("cython_add", "add_discrete_function_cython", "python_backend", "add_discrete_function_python"),
             ("cython_directionality", "spike_train_order_profile_cython", "directionality_python_backend", "spike_train_order_profile_python"),
             ("cython_directionality", "spike_directionality_profiles_cython", "directionality_python_backend", "spike_directionality_profile_python"),
             ("cython_distances", "isi_distance_cython", None, None),
             ("cython_distances", "spike_distance_cython", None, None),
             ("cython_distances", "coincidence_value_cython", None, None),
             ("cython_directionality", "spike_train_order_cython", None, None),
             ("cython_directionality", "spike_directionality_cython", None, None)]
    impl.set_backend("shim")
    import importlib
    for cm, cn, pm, pn in twins:
        impl.shim(cm, cn)
        if pm and not hasattr(importlib.import_module("pyspike.cython." + pm), pn):
            ctx.violation("twins-exist", {"module": pm, "name": pn}, "python twin %s.%s of %s.%s does not exist" % (pm, pn, cm, cn))
    impl.set_backend("py")
    ctx.notes["routine_pairs"] = len(twins)
    q = ctx.tier == QUICK
    runs = [("IsiScan", dict(TS=0, TE=5 if q else 6, MaxSp=6 if q else 7, MRTSQ=tla_set([0, 6] if q else [0, 6, 16])),
             ["Correct", "Export"], "twin_isi"),
            ("SpikeScan", dict(TS=0, TE=5 if q else 6, MaxSp=6 if q else 7, MRTSQ=tla_set([0, 10]), RISet="{FALSE, TRUE}", DevF9="FALSE"),
             ["Correct", "Export"], "twin_spike"),
            ("SyncScan", dict(TS=0, TE=5 if q else 6, MaxSp=6 if q else 7, MRTSQ=tla_set([0, 24]), TauQ=tla_set([0, 6, 14] if q else [0, 2, 6, 18]), DevF1="FALSE"),
             ["Correct", "OrderCorrect", "DirCorrect", "AccCorrect", "Export"], "twin_sync"),
            ("SyncScan", dict(TS=0, TE=7 if q else 9, MaxSp=3, MRTSQ=tla_set([0, 24]), TauQ=tla_set([0, 6, 24]), DevF1="FALSE"),
             ["Correct", "OrderCorrect", "DirCorrect", "AccCorrect", "Export"], "twin_sync")]
    for mod, c, invs, ck in runs:
        res = run_tlc(mod, c, invs, workers=16, timeout=6000)
        ctx.add_tlc(res, "%s: inputs and branch paths for the twin comparison" % mod)
        if res.violated:
            continue
        ctx.sample(res.exports[len(res.exports) // 3])
        for r in res.exports:
            ctx.count_path(mod + ":" + "/".join(r["path"]))
        replay.run(ctx, ck, res.exports, backends=("shim",), chunk=200)
    _c12_add(ctx)
    # larger random argument tuples (T = 60, <= 20 spikes): twins against each other
    import traces as _traces
    big = _traces.random_pair_records(ctx.seed + 301, 300 if q else 5000)
    ctx.sample({"random_twin_input": big[0]}, limit=8)
    for ck in ("twin_isi", "twin_spike", "twin_sync"):
        replay.run(ctx, ck, big, backends=("shim",), chunk=50)
    # the public functions under both configurations (the fallback branches of the dispatchers included)
    res = run_tlc("Relations", dict(TS=0, TE=5, MaxSp=3 if q else 4, MRTSQ=tla_set([0, 18]), TauQ=tla_set([0, 6, 14]),
                                    RISet="{FALSE, TRUE}", ShiftsP="{5}", Scales="{1}"), ["Export"], workers=16, timeout=3000)
    ctx.add_tlc(res, "cases for the API-level comparison of the two backend configurations")
    if not res.violated:
        replay.run(ctx, "twin_api", res.exports, backends=("py",), chunk=200)
    ctx.assumptions += ["the .pyx sources are executed by transliteration (harness/pyxshim.py) with bounds-checked memoryviews and C division; C compilation, int overflow and nogil threading are not covered"]
    return ctx.finish(rule="every TLC terminal state of the scan specs is one argument tuple; both twins are executed on it; "
                           "distinct = distinct branch paths")


def _heap_cfgs(tier, kind):
    # Accu: object 3 starts as the zero single-piece function (accumulator idiom) instead of unallocated
    if kind == "disc":
        return [dict(T0=0, T=3, MaxOps=2, NBase=2, Accu="FALSE"), dict(T0=0, T=3, MaxOps=1, NBase=2, Accu="TRUE")] if tier == QUICK else \
               [dict(T0=0, T=3, MaxOps=3, NBase=2, Accu="FALSE"), dict(T0=-2, T=2, MaxOps=2, NBase=2, Accu="TRUE")]
    return [dict(T0=0, T=4, MaxOps=2, NBase=2, Accu="FALSE"), dict(T0=0, T=4, MaxOps=1, NBase=2, Accu="TRUE")] if tier == QUICK else \
           [dict(T0=0, T=4, MaxOps=3, NBase=2, Accu="FALSE"), dict(T0=-2, T=4, MaxOps=2, NBase=2, Accu="TRUE")]


HEAP_INVS = ["Represents", "IntegralLinear"]
HEAP_PROPS = ["XIsUnion", "OnlyReceiverChanges", "Commutes"]


def _run_heap(ctx, kinds, backends=("py", "shim"), only_add=False):
    for kind in kinds:
        for ci, c in enumerate(_heap_cfgs(ctx.tier, kind)):
            c = dict(c)
            c["Kind"] = '"%s"' % kind
            # in the second configuration base function 2 vanishes identically but keeps its breakpoints
            c.setdefault("ZeroBase", 2 if ci == 1 else 0)
            if c["T0"] < 0:
                c["T0"] = "<- Neg%d" % (-c["T0"])
            res = run_tlc("FuncObjects", c, HEAP_INVS, properties=HEAP_PROPS, view="View",
                          action_constraints=["TransExport"], workers=16, timeout=6000)
            ctx.add_tlc(res, "heap of %s objects under add / mul_scalar / copy: arrays represent the ghost combination" % kind)
            if res.violated:
                continue
            ex = res.exports
            if only_add:
                ex = [r for r in ex if r["op"]["f"] == "add"]
            ctx.sample(ex[len(ex) // 2])
            for r in ex:
                ctx.count_path("%s:%s:%s" % (kind, r["op"]["f"], "/".join(str(len(o["x"])) for o in r["pre"])))
                ctx.count_actions([r["op"]["f"]], "FuncObjects.%s." % kind)
            replay.run(ctx, "heap", ex, backends=backends, chunk=500)


def _c12_add(ctx):
    """the three add routine pairs: every add transition of the heap spec under both backends"""
    _run_heap(ctx, ["pwc", "pwl", "disc"], only_add=True)


def c09(ctx):
    """adding piecewise profiles = pointwise addition on the merged support; operand untouched; copies independent"""
    _run_heap(ctx, ["pwc", "pwl"])
    # long inputs (hundreds of breakpoints): recorded adds against the sum the transcribed routines give
    import traces as _traces
    _traces.validate_add(ctx, ["pwc", "pwl"], ctx.seed + 401, 12 if ctx.tier == QUICK else 80)
    ctx.assumptions += ["generic rational piece values on integer breakpoints; every breakpoint pattern pair of the grid",
                        "histories are covered transition-wise: every reachable heap (<= MaxOps-1 operations) x every operation, "
                        "with an independence probe through the public API after each"]
    return ctx.finish(rule="every transition (heap, operation) of FuncObjects reachable within MaxOps operations; "
                           "distinct = distinct (kind, operation, shape of the heap) classes")


QUERY_INVS = ["IntegralExact", "FullEqWhole", "Additive", "MultiInterval", "EvalRule", "Plottable", "BadIsRejected",
              "OpenIntervalSums", "DiscFull", "DiscMulti", "SmoothingIsUnitMean", "Export"]


def _run_query(ctx, kinds):
    for kind in kinds:
        if ctx.tier == QUICK:
            cfgs = [dict(T0=1, T=4 if kind == "disc" else 5)]
        else:
            cfgs = [dict(T0=1, T=5 if kind == "disc" else 6), dict(T0=-2, T=2)]
        for c in cfgs:
            c = dict(c)
            c["Kind"] = '"%s"' % kind
            if c["T0"] < 0:
                c["T0"] = "<- Neg%d" % (-c["T0"])
            res = run_tlc("FuncQuery", c, QUERY_INVS, workers=16, timeout=6000)
            ctx.add_tlc(res, "queries of %s functions: code formula = declarative definition" % kind)
            if res.violated:
                continue
            seen = set()
            for r in res.exports:
                key = (r["q"]["kind"], r["res"]["branch"])
                if key not in seen:
                    seen.add(key)
                    ctx.sample(r, limit=6)
                ctx.count_path("%s:%s:%s:%d" % (kind, r["q"]["kind"], r["res"]["branch"], len(r["f"]["x"])))
                ctx.actions["%s.%s.%s" % (kind, r["q"]["kind"], r["res"]["branch"])] = \
                    ctx.actions.get("%s.%s.%s" % (kind, r["q"]["kind"], r["res"]["branch"]), 0) + 1
            replay.run(ctx, "query", res.exports, backends=("py",), chunk=500)


def c10(ctx):
    """integral, average and evaluation of piecewise functions are exact"""
    _run_query(ctx, ["pwc", "pwl"])
    ctx.assumptions += ["generic rational values, integer breakpoints on a support that does not start at 0, interval ends and "
                        "evaluation times on the quarter grid (multi-interval form: half grid)",
                        "queries do not dispatch to a backend: executed once"]
    return ctx.finish(rule="every function (breakpoint pattern) x every query (interval a<b, pair of intervals, evaluation time, "
                           "plottable); distinct = (kind, query, branch of the code, number of breakpoints)")


def c11(ctx):
    """discrete profiles add by event and integrate over open intervals; smoothing"""
    _run_heap(ctx, ["disc"])
    _run_query(ctx, ["disc"])
    import traces as _traces
    _traces.validate_add(ctx, ["disc"], ctx.seed + 402, 8 if ctx.tier == QUICK else 60)
    ctx.assumptions += ["integer event times (events on the edge times included), generic rational values, multiplicities 1..3",
                        "smoothing: unit-contribution definition checked against the transcribed loop for k = 0, 1, 2"]
    return ctx.finish(rule="every heap transition of discrete functions + every (function, query); "
                           "distinct = (operation / query, branch, shape) classes")


MULTI_BASE = dict(TS=0, TE=4, MaxSp=2, N=3, MRTS4=0, TAU4=0, RIFlag="FALSE", IdxMode='"none"', IvCodes="{0}",
                  ThrCodes="{12}", Sample=0, PoolMode='"all"', ErrorPaths="FALSE")


def _multi(ctx, cfg, fns, invs, checks, what, backends=("py", "shim"), chunk=300):
    c = dict(MULTI_BASE)
    c.update(cfg)
    vacuous_ok = c.pop("_vacuous_ok", False)      # a setting that is a no-op on purpose (e.g. max_tau beyond the recording)
    only_bad = c.pop("FnFilter", None) == "bad"
    c["FnSet"] = "{" + ", ".join('"%s"' % f for f in fns) + "}"
    c = _neg(c)
    # a sampled pool in which the keyword setting cannot matter is re-drawn (deterministically: seed + 1000*k)
    for attempt in range(4):
        res = run_tlc("Multi", c, invs + ["WellFormed", "Export"], workers=16, timeout=6000,
                      seed=((ctx.seed or 1) + 1000 * attempt) if c.get("Sample") else None)
        if res.violated:
            ctx.add_tlc(res, what, exhaustive=not c.get("Sample"))
            return []
        ex = res.exports
        if only_bad:
            ex = [r for r in ex if r["res"]["t"] == "error"]
        else:
            ex = [r for r in ex if r["res"]["t"] != "error"]
        vac = [] if vacuous_ok else _multi_effective(ctx, ex, what)
        if not vac or not c.get("Sample"):
            break
        ctx.notes["pools_redrawn"] = ctx.notes.get("pools_redrawn", 0) + 1
    ctx.add_tlc(res, what, exhaustive=not c.get("Sample"))
    if vac:
        # exhaustive run: deterministic, a setting that cannot matter is a defect of the check (exit 2);
        # sampled run: four pools were drawn without effect -- recorded, not fatal (depends on the seed)
        ctx.notes.setdefault("vacuous_keywords" if not c.get("Sample") else "keyword_without_effect_in_sample", []).extend(vac)
    seen = set()
    for r in ex:
        key = (r["call"]["fn"], len(r["call"]["idx"]), r["call"]["iv"] != 0)
        if key not in seen:
            seen.add(key)
            ctx.sample(r, limit=5)
        ctx.count_path("%s/%s/%s/%s" % (r["call"]["fn"], r["call"]["idx"], r["call"]["iv"], [len(t) for t in r["tr"]]))
        ctx.count_actions([r["call"]["fn"]], "Multi.Exec.")
    for ck in checks:
        replay.run(ctx, ck, ex, backends=backends, chunk=chunk)
    return ex


SYNC_FNS = ("sync_profile", "order_profile", "sync", "order", "sync_matrix", "dir_matrix", "dir_values", "filter")


def _multi_effective(ctx, ex, what):
    """vacuity guard for the keyword setting of a Multi run: a non-zero MRTS / max_tau must change the result of
    at least one of the exported calls (in the code, pure-Python backend) with respect to the keyword left out"""
    from common import fr
    import impl
    import checkers_multi as cm
    vac = []
    if not ex:
        return vac
    impl.set_backend("py")
    for kw in ("mrts", "mtau"):
        if fr(ex[0][kw]) == 0:
            continue
        tried = diff = 0
        import random
        # TLC's export order depends on worker scheduling: sort before sampling, so that the guard is deterministic
        pool = sorted(ex, key=lambda r: repr((r["tr"], r["call"]["fn"], r["call"]["idx"], r["call"]["iv"], r["call"].get("thr"))))
        for r in random.Random(1).sample(pool, min(400, len(pool))):
            if r["res"]["t"] == "error" or (kw == "mtau" and r["call"]["fn"] not in SYNC_FNS):
                continue
            sts = cm.trains_of(r)
            import contextlib
            import io
            # a value matters if leaving it out changes the result, or if a mis-scaled value (half, double -- the
            # classic slips with max_tau's factor 2 and MRTS's factor 4) would: max_tau = 2 on a recording of length 4
            # never binds, but max_tau/2 does, so it still separates right from wrong handling of the keyword
            v = fr(r[kw])
            alts = [[0, 1], [v.numerator, 2 * v.denominator], [2 * v.numerator, v.denominator]]
            with contextlib.redirect_stdout(io.StringIO()):      # the library prints debug output
                s1, a = impl.call(cm.invoke, r, sts, "idx")
                others = [impl.call(cm.invoke, dict(r, **{kw: alt}), sts, "idx") for alt in alts]
            tried += 1
            if s1 == "ok" and any(s0 == "ok" and not cm.equal_results(cm.norm_result(r, a), cm.norm_result(r, b)) for s0, b in others):
                diff += 1
        note = ctx.notes.setdefault("effective_keyword_values", {})
        note["Multi[%s]/%s=%s" % (what[:40], kw, fr(ex[0][kw]))] = {"calls_tried": tried, "result_changed": diff}
        if tried >= 40 and diff == 0:
            vac.append("%s=%s changes the result of none of %d sampled calls (%s)" % (kw, fr(ex[0][kw]), tried, what))
    return vac


def c05(ctx):
    """every scalar measure equals the average of its profile over the same interval"""
    fns = ["isi_distance", "spike_distance", "sync", "order"]
    q = ctx.tier == QUICK
    runs = [dict(N=3, TE=4, MaxSp=2, IvCodes="{0, 105, 208, 307}", Sample=0 if not q else 8),
            dict(N=3, TE=4, MaxSp=2, IvCodes="{0, 206}", Sample=4 if q else 8, IdxMode='"all"', TAU4=8),
            dict(N=2, TE=4, MaxSp=3, IvCodes="{0, 3, 204, 508, 8}", IdxMode='"none"', MRTS4=12, TAU4=4, RIFlag="TRUE"),
            dict(N=4, TE=4, MaxSp=2, IvCodes="{0, 206}", Sample=4 if q else 7, MRTS4=24)]
    if not q:
        runs += [dict(N=3, TS=-2, TE=3, MaxSp=2, IvCodes="{0, 109, 305}", Sample=9, MRTS4=12, TAU4=4, RIFlag="TRUE", IdxMode='"all"')]
    for r in runs:
        _multi(ctx, r, fns, ["RouteSEqRouteP"], ["multi_avg"], "scalar route = average of the profile route")
    ctx.assumptions += ["code-vs-code: the scalar returned by the distance function against avrg(interval) of the profile returned "
                        "by the profile function, both backends; the SPIKE-Sync = 1 convention is checked absolutely"]
    return ctx.finish(rule="lists of N trains x measure x averaging interval (None and sub-intervals on the half grid); "
                           "one case = one TLC state of Multi")


def c06(ctx):
    """multivariate = all-pairs aggregate; list order irrelevant; matrices"""
    q = ctx.tier == QUICK
    prof = ["isi_profile", "spike_profile", "sync_profile", "isi_distance", "spike_distance", "sync"]
    mats = ["isi_matrix", "spike_matrix", "sync_matrix"]
    _multi(ctx, dict(N=3, Sample=0 if not q else 9), prof, ["PointwiseMean", "PooledEvents", "PermInvariant"],
           ["multi_abs", "multi_perm"], "multivariate profile = pointwise mean / pooled events; permutation invariant")
    _multi(ctx, dict(N=3, Sample=0 if not q else 9, IvCodes="{0, 206}"), mats, ["MatrixIsBivariate"],
           ["multi_abs", "multi_perm"], "matrices contain the bivariate values")
    _multi(ctx, dict(N=4, Sample=4 if q else 6, MRTS4=12, TAU4=4, RIFlag="TRUE"), prof + mats,
           ["PointwiseMean", "PooledEvents", "MatrixIsBivariate"], ["multi_abs", "multi_perm"],
           "N = 4 (tail branches of the adds, recursive halving of 6 pairs)")
    _multi(ctx, dict(N=5, TE=4, MaxSp=2, Sample=2 if q else 3, MRTS4=24, TAU4=0, RIFlag="TRUE"),
           ["isi_profile", "spike_profile", "sync_profile", "isi_distance", "sync"],
           ["PointwiseMean", "PooledEvents"], ["multi_abs", "multi_perm"], "N = 5: ten pairs, uneven halving, keywords that matter")
    if not q:
        _multi(ctx, dict(N=3, TS=-2, TE=3, MaxSp=3, Sample=8, MRTS4=24, TAU4=4), prof + mats,
               ["PointwiseMean", "PooledEvents", "MatrixIsBivariate"], ["multi_abs", "multi_perm"], "second origin, 3 spikes")
    # MRTS='auto': the threshold of a multivariate call is pooled over the whole list that is handed over
    # (also when indices select a part of it), so that it stays the mean / aggregate of the pair values
    _multi(ctx, dict(N=3, TE=9, MaxSp=3, Sample=3 if q else 8, IdxMode='"pairs"'),
           ["isi_distance", "isi_profile", "sync", "sync_profile"] + ["isi_matrix", "sync_matrix"], [], ["multi_auto"],
           "MRTS='auto' with an index selection")
    import traces as _traces
    _traces.validate_multi(ctx, ctx.seed + 201, 120 if q else 1500)
    _traces.validate_multi(ctx, ctx.seed + 202, 60 if q else 800, mrts4=6, tau4=8, ri=True)
    if not q:
        _traces.validate_multi(ctx, ctx.seed + 203, 600, T=16, maxsp=6, nmax=7, tau4=4)
    return ctx.finish(rule="lists of N trains (empty and repeated trains included) x entry point; "
                           "one case = one TLC state of Multi; every permutation of the list (N <= 3) / 6 of 24 (N = 4)")


def c14(ctx):
    """all call forms and index selections agree"""
    q = ctx.tier == QUICK
    fns = ["isi_profile", "spike_profile", "sync_profile", "order_profile", "isi_distance", "spike_distance", "sync",
           "order", "isi_matrix", "spike_matrix", "sync_matrix", "dir_matrix", "dir_values"]
    _multi(ctx, dict(N=3, IdxMode='"all"', Sample=5 if q else 7, IvCodes="{0, 206}"), fns, [], ["multi_forms", "multi_abs"],
           "every ordered index selection of size >= 2")
    _multi(ctx, dict(N=4, IdxMode='"all"', Sample=2 if q else 3, MRTS4=12, TAU4=0, RIFlag="TRUE"), fns, [],
           ["multi_forms", "multi_abs"], "N = 4: 60 ordered selections")
    _multi(ctx, dict(N=3, IdxMode='"all"', Sample=4 if q else 6, MRTS4=24, TAU4=0, RIFlag="TRUE", IvCodes="{0, 105}"), fns, [],
           ["multi_forms", "multi_abs"], "keywords that matter (MRTS = 6: window floor 1.5, RI) through every form")
    _multi(ctx, dict(N=5, IdxMode='"perms"', Sample=1 if q else 2, MRTS4=24), ["isi_profile", "sync_profile", "order_profile", "isi_distance"],
           [], ["multi_forms", "multi_abs"], "N = 5: every ordering of the whole list as index selection (10 pairs, recursive halving)")
    ctx.assumptions += ["the expected value of f(list, indices=idx) is computed by the spec on the selected sub-list in the "
                        "given order; the forms are compared with each other on the code"]
    return ctx.finish(rule="lists x every ordered subset of positions (size >= 2) x entry point x call form "
                           "(indices list / numpy indices / sub-list / *args / two arguments)")


def c17(ctx):
    """the SPIKE-Sync filter keeps exactly the spikes above threshold"""
    q = ctx.tier == QUICK
    _multi(ctx, dict(N=3, ThrCodes="{1, 12, 11, 14, 34}", Sample=0 if not q else 9), ["filter"],
           ["FilterPartition", "FilterEqualsProfile"], ["multi_abs", "filter_rel"], "N = 3, thresholds 0, 1/2, 1, 1/4, 3/4")
    _multi(ctx, dict(N=4, ThrCodes="{13, 23, 12, 16}", Sample=4 if q else 6, TAU4=0, MRTS4=24), ["filter"],
           ["FilterPartition", "FilterEqualsProfile"], ["multi_abs", "filter_rel"], "N = 4, thresholds k/3 hit exactly")
    _multi(ctx, dict(N=3, ThrCodes="{1, 12}", PoolMode='"deg"', TAU4=12, _vacuous_ok=True), ["filter"],
           ["FilterPartition", "FilterEqualsProfile"], ["multi_abs", "filter_rel"], "max_tau beyond half the recording")
    _multi(ctx, dict(N=2, MaxSp=3, ThrCodes="{1, 12, 11}", TE=5, TAU4=4), ["filter"],
           ["FilterPartition", "FilterEqualsProfile"], ["multi_abs", "filter_rel"], "N = 2")
    # six trains: the levels k/5 of the profile are not all products k*(1/5) in doubles (3*(1/5.) > 0.6)
    _multi(ctx, dict(N=6, TE=3, MaxSp=1, ThrCodes="{305, 205, 405}", Sample=2 if q else 3), ["filter"],
           ["FilterPartition", "FilterEqualsProfile"], ["multi_abs"], "N = 6, thresholds k/5 hit exactly")
    # a longer recording with tight spikes: the automatic threshold (pooled over the whole list) changes coincidences
    _multi(ctx, dict(N=3, TE=9, MaxSp=3, ThrCodes="{1, 12}", Sample=8 if q else 20), ["filter"],
           ["FilterPartition", "FilterEqualsProfile"], ["multi_abs", "filter_rel"], "MRTS='auto' in the filter = the pooled threshold")
    return ctx.finish(rule="lists x thresholds (k/(N-1) exactly and mid-points); kept / removed arrays compared exactly")


def c13(ctx):
    """inputs are normalised before use and never modified"""
    q = ctx.tier == QUICK
    runs = [(dict(VLo=0, VHi=6, MaxLen=3, N=2, EdgeCodes="{105, 205, 104}", Eps=1, Sample=4 if q else 20), None),
            (dict(VLo=0, VHi=5, MaxLen=2, N=3, EdgeCodes="{104, 204, 15}", Eps=1, Sample=3 if q else 8), None),
            (dict(VLo="<- Neg4", VHi=1, MaxLen=2, N=2, EdgeCodes="{104, 3, 205}", Eps=1, Sample=5 if q else 12), None),
            # the 1e-6 slack: grid unit 4e-7 s, so 2 units are inside the slack and 3 units outside
            (dict(VLo=0, VHi=8, MaxLen=2, N=2, EdgeCodes="{305, 306}", Eps=3, Sample=6 if q else 30), 4e-7)]
    for c, unit in runs:
        res = run_tlc("Reconcile", c, ["ReconcileDef", "Idempotent", "OrderIrrelevant", "Export"], workers=16, timeout=3000,
                      seed=ctx.seed or 1)
        ctx.add_tlc(res, "reconcile = normal form (common interval, strictly increasing, exactly the distinct inputs inside)",
                    exhaustive=False)
        if res.violated:
            continue
        ex = res.exports
        if unit:
            for r in ex:
                r["_unit"] = unit
        ctx.sample(ex[len(ex) // 2])
        for r in ex:
            ctx.count_path("/".join("%d:%d" % (len(m["sp"]), len(set(m["sp"]))) for m in r["inp"]) + ("u" if unit else ""))
        replay.run(ctx, "reconcile", ex, chunk=100)
    ctx.assumptions += ["messy trains: arbitrary sequences (order, repetitions, values outside the edges) with per-train edges; "
                        "train 1 exhaustive, the others from a seeded random subset",
                        "the slack is probed 20% inside and 20% outside 1e-6, never on the boundary"]
    return ctx.finish(rule="messy lists; reconcile result compared exactly with the spec's normal form; every public measure on "
                           "messy input vs on the normal form with Reconcile=False; input snapshots before/after every call")


ALL_FNS = ["isi_profile", "spike_profile", "sync_profile", "order_profile", "isi_distance", "spike_distance", "sync",
           "order", "isi_matrix", "spike_matrix", "sync_matrix", "dir_matrix", "dir_values", "filter"]


def c18(ctx):
    """every valid input yields a finite, well-formed result without error"""
    q = ctx.tier == QUICK
    runs = [dict(N=2, PoolMode='"deg"', IvCodes="{0, 105, 4}"),
            dict(N=3, PoolMode='"deg"', IvCodes="{0, 206}", Sample=0 if not q else 5),
            dict(N=3, PoolMode='"deg"', MRTS4=12, TAU4=4, RIFlag="TRUE", Sample=0 if not q else 5),
            dict(N=4, PoolMode='"deg"', Sample=3 if q else 6, IdxMode='"none"'),
            dict(N=3, PoolMode='"deg"', Sample=4 if q else 0, IdxMode='"all"', TAU4=8),
            dict(N=3, MaxSp=3, TE=5, Sample=6 if q else 12, IvCodes="{0, 307}", MRTS4=10, TAU4=0)]
    for r in runs:
        _multi(ctx, r, ALL_FNS, [], ["multi_wf"], "every entry point on lists of degenerate trains: well-formed result", chunk=200)
    # calls the library rejects (invalid index, interval for the order functions): modelled, bound as advisory only
    _multi(ctx, dict(N=3, Sample=2, ErrorPaths="TRUE", FnFilter="bad"), ALL_FNS, ["ErrorIsRejected"], ["multi_abs"],
           "error paths (advisory)")
    ctx.assumptions += ["degenerate slice: trains with no spike, one spike (every grid position incl. both edges), spikes on both "
                        "edges, identical trains; plus a sampled slice of ordinary trains"]
    return ctx.finish(rule="lists of 2..4 degenerate trains x every public entry point x keyword setting x interval; "
                           "structural check of the returned object + bivariate functions on every ordered pair of the list")


def c19(ctx):
    """text round trips and imports"""
    import json as _json
    import pool as _pool
    from common import scratch, rmtree
    q = ctx.tier == QUICK
    d = scratch("pyspike_pool_")
    try:
        for seed, nb in ([(0, 6)] if q else [(0, 6), (ctx.seed + 1, 7)]):
            vals, table = _pool.build(seed, nb)
            pf = os.path.join(d, "pool_%d.json" % seed)
            _pool.write(pf, table)
            # thorough: three trains and two edits; the value sample is kept at the quick size (6 values gave
            # 2.1 million file round trips per pool, about 40 minutes for no new kind of case)
            c = dict(Mode='"roundtrip"', NTrains=2 if q else 3, MaxLen=2, MaxEdits=1 if q else 2, Rows=1, Cols=1, Sample=5 if q else 4)
            res = run_tlc("TextIO", c, ["RoundTrip", "Identity17", "RndMonotone", "CountAndOrder", "Export"], workers=16,
                          timeout=3000, env={"POOL_FILE": pf}, seed=ctx.seed or 1)
            ctx.add_tlc(res, "save / edit / load: file structure and rounding tables (pool of %d doubles)" % len(vals), exhaustive=False)
            if res.violated:
                continue
            ex = res.exports
            for k, r in enumerate(ex):
                r["_vals"] = vals
                r["_precs"] = table["precs"]
                r["_k"] = k
                ctx.count_path("%s/%s/%s" % ([len(t) for t in r["trains"]], [e["e"] for e in r["edits"]], sorted(r["par"].items())))
            ctx.sample(ex[len(ex) // 2])
            replay.run(ctx, "textio", ex, backends=("py",), chunk=300)
        for rows, cols in ([(1, 3), (3, 1), (2, 3)] if q else [(1, 4), (4, 1), (2, 4), (3, 3), (1, 1)]):
            c = dict(Mode='"series"', NTrains=1, MaxLen=1, MaxEdits=0, Rows=rows, Cols=cols, Sample=0)
            vals, table = _pool.build(0, 4)
            pf = os.path.join(d, "pool_s.json")
            _pool.write(pf, table)
            res = run_tlc("TextIO", c, ["Export"], workers=4, timeout=600, env={"POOL_FILE": pf})
            ctx.add_tlc(res, "all %dx%d 0/1 matrices" % (rows, cols))
            for r in res.exports:
                ctx.count_path("series %dx%d %s" % (rows, cols, [len(t) for t in r["trains"]]))
            ctx.sample(res.exports[-1])
            replay.run(ctx, "series", res.exports, backends=("py",), chunk=100)
    finally:
        rmtree(d)
    ctx.assumptions += ["the decimal fidelity of arbitrary doubles is sampled through a finite value pool (awkward doubles closed under "
                        "the rounding maps, computed with exact decimal arithmetic), not decided",
                        "separators ' ', ',', ';', tab, ', ' and comment prefixes '#', '%', '//' rotate over the cases"]
    return ctx.finish(rule="file structures (which trains are empty, comment / blank / reversed lines, flags, precision) x value pool; "
                           "all 0/1 matrices of the listed shapes x 4 (start, bin) pairs x 2 separators")


def c20(ctx):
    """merging and histogramming conserve every spike; Poisson trains are well formed"""
    import traces as _traces
    q = ctx.tier == QUICK
    runs = [dict(TS=0, TE=5, MaxSp=2, N=3, BinQ=tla_set([4, 8, 10, 6, 20]), Sample=5 if q else 12),
            dict(TS=-2, TE=4, MaxSp=3, N=2, BinQ=tla_set([2, 4, 24, 7]), Sample=8 if q else 30)]
    if not q:
        runs.append(dict(TS=0, TE=7, MaxSp=3, N=4, BinQ=tla_set([4, 12, 28]), Sample=5))
    for c in runs:
        c = _neg(c)
        res = run_tlc("Collections", c, ["MergeIsMultisetUnion", "PsthCounts", "Export"], workers=16, timeout=3000, seed=ctx.seed or 1)
        ctx.add_tlc(res, "merge = sorted multiset union; PSTH bins count every spike", exhaustive=False)
        if res.violated:
            continue
        ctx.sample(res.exports[len(res.exports) // 2])
        for r in res.exports:
            ctx.count_path("%s/%s" % ([len(t) for t in r["tr"]], r["bin"]))
        replay.run(ctx, "coll", res.exports, backends=("py",), chunk=300)
    # code -> spec: recorded executions on float data, rank-abstracted, validated by TLC
    n = 300 if q else 3000
    tr, raw = _traces.poisson_traces(ctx.seed + 7, n)
    _traces.validate(ctx, tr, raw, "generate_poisson_spikes: %d recorded executions validated against PoissonPost" % n, "trace_poisson")
    ctx.sample(tr[1])
    tr2, raw2 = _traces.merge_traces(ctx.seed + 11, n // 3)
    _traces.validate(ctx, tr2, raw2, "merge_spike_trains on float data (test data file, random trains): validated against MergePost", "trace_merge")
    ctx.sample(tr2[0])
    ctx.assumptions += ["nothing is said about the distribution of generate_poisson_spikes; only sortedness, containment in [T0,T1) and the edges",
                        "rank abstraction: every time of a recorded call is replaced by its rank among the distinct values (exact for < and =)"]
    return ctx.finish(rule="grid lists x bin sizes (dividing and not dividing the recording) replayed; seeded recorded executions of "
                           "generate_poisson_spikes (3 interval forms x 5 rates) and merge_spike_trains validated as traces")


# ================================================================================================
# coverage extensions: specification modules for behaviour none of the 20 listed properties talks
# about (DESIGN.md section 11).  Not registered in MANIFEST.json; evidence under evidence/extensions/.
SIMANN_INVS = ["PermInv", "AIsObjective", "ConvergedLocal", "Bounded"]


def x01(ctx):
    """simulated annealing for the optimal spike-train order: SimAnn.tla <-> cython_simulated_annealing.pyx"""
    import json
    import traces as tr_mod
    from common import scratch, rmtree
    import checkers_simann as cs
    q = ctx.tier == QUICK
    # (1) the design, exhaustively on small loop bounds: invariants in every state, termination
    for c in ([dict(N=3, VRaw="{0,1,2,3,4}", VOff=2, ItF=2, SuccF=1, Levels=3)] if q else
              [dict(N=3, VRaw="{0,1,2,3,4}", VOff=2, ItF=2, SuccF=1, Levels=3),
               dict(N=3, VRaw="{1,2,3,4,5}", VOff=3, ItF=3, SuccF=2, Levels=2),
               dict(N=4, VRaw="{0,1,2}", VOff=1, ItF=1, SuccF=1, Levels=2)]):
        c = dict(c, Hist="FALSE", ColdFrom=99)
        res = run_tlc("SimAnn", c, SIMANN_INVS, properties=["DrawRule", "Terminates"], spec="Spec", view="View",
                      workers=16, timeout=3000, coverage=True)
        ctx.add_tlc(res, "every behaviour of the annealing loop on small loop bounds: p a permutation, A the objective of "
                         "the current order, local optimality on convergence, termination")
    # (2) spec -> code with the loop bounds of the code (100*N, 10*N): simulated behaviours, hot / cooling / greedy
    sims = [dict(N=3, Levels=2, ColdFrom=99, num=12 if q else 60, wrapper=False),
            dict(N=3, Levels=110, ColdFrom=1, num=12 if q else 60, wrapper=True),
            dict(N=4, Levels=110, ColdFrom=0, num=8 if q else 40, wrapper=True),
            dict(N=2, Levels=110, ColdFrom=2, num=6 if q else 20, wrapper=True),
            dict(N=5, Levels=3, ColdFrom=2, num=6 if q else 30, wrapper=False, VRaw="{2,3,4}"),
            # plateaus (zero entries): swaps that leave A unchanged keep the search alive through all 110 temperatures
            dict(N=3, Levels=110, ColdFrom=1, num=3 if q else 12, wrapper=True, VRaw="{3,4}")]
    for s in sims:
        c = dict(N=s["N"], VRaw=s.get("VRaw", "{0,1,2,3,4,5,6}"), VOff=3, ItF=100, SuccF=10, Levels=s["Levels"], Hist="TRUE",
                 ColdFrom=s["ColdFrom"])
        res = run_tlc("SimAnn", c, ["PermInv", "AIsObjective", "Export"], action_constraints=["Cold"], simulate=s["num"],
                      depth=100000, seed=(ctx.seed or 1) + s["N"], timeout=3000)
        ctx.add_tlc(res, "simulated behaviours with the loop bounds of the code (N=%d, %d temperatures, cold from %d)" % (
            s["N"], s["Levels"], s["ColdFrom"]), exhaustive=False)
        if res.violated:
            continue
        ex = [r for r in res.exports if r.get("k") == "simann"]
        if not ex:
            raise MachineryError("simulation of SimAnn exported no finished behaviour")
        for r in ex:
            r["wrapper"] = bool(s["wrapper"])
            acts = set()
            if r["levels"] == 110 and not r["conv"]:
                acts.add("LevelBound110")
            for i, acc, up in r["hist"]:
                acts.add("Accept.improving" if up else ("Accept.worsening" if acc else "Reject"))
            ctx.count_actions(sorted(acts), "SimAnn.")
            ctx.count_path("simann:%d:%s:%d" % (s["N"], r["conv"], r["levels"]))
        e0 = max(ex, key=lambda r: len(r["hist"]))
        ctx.sample({"D": e0["D"], "draws": len(e0["hist"]), "p": e0["p"], "A": e0["A"], "total": e0["total"], "levels": e0["levels"]}, limit=8)
        replay.run(ctx, "simann", ex, backends=("py",), chunk=4)
    ctx.require_actions(["Accept.improving", "Accept.worsening", "Reject", "LevelBound110"], "SimAnn.")
    # (3) code -> spec: observed executions validated by SimAnnTrace
    import impl
    impl.set_backend("py")
    batches = [dict(N=3, levels=3, wrapper=False, count=6 if q else 30),
               dict(N=4, levels=2, wrapper=False, count=4 if q else 20),
               dict(N=3, levels=110, wrapper=True, count=2 if q else 8),
               dict(N=2, levels=110, wrapper=True, count=2 if q else 6)]
    for bi, b in enumerate(batches):
        trs = cs.record((ctx.seed or 1) * 100 + bi, b["count"], b["N"], b["levels"], b["wrapper"])
        bad = [t for t in trs if "error" in t]
        for t in bad:
            ctx.mismatch("simann_trace", {"trace": t}, "sim_ann D=%s: %s" % (t["D"], t["error"]))
        trs = [t for t in trs if "error" not in t]
        if not trs:
            continue
        d = scratch("pyspike_sa_")
        try:
            path = os.path.join(d, "traces.json")
            with open(path, "w") as f:
                json.dump(trs, f)
            res = run_tlc("SimAnnTrace", dict(N=b["N"], VRaw="{0}", VOff=0, ItF=100, SuccF=10, Levels=b["levels"], Hist="FALSE",
                                              ColdFrom=999),
                          SIMANN_INVS + ["Verdict"], init="TInit", nxt="TNext", workers=8, timeout=3000,
                          env={"TRACE_FILE": path})
        finally:
            rmtree(d)
        ctx.add_tlc(res, "%d observed executions (N=%d, %s) validated step by step" % (
            len(trs), b["N"], "through the public wrapper" if b["wrapper"] else "%d temperatures" % b["levels"]))
        if res.violated:
            continue
        verdicts = {}
        for v in res.exports:
            if v.get("k") == "verdict" and (v["id"] not in verdicts or not v["accepted"]):
                verdicts[v["id"]] = v
        if len(verdicts) != len(trs):
            raise MachineryError("trace validation: %d verdicts for %d traces" % (len(verdicts), len(trs)))
        for t in trs:
            ctx.traces += 1
            ctx.evaluations += len(t["events"])
            v = verdicts[t["id"]]
            if not v["accepted"]:
                at = v["at"]
                ctx.mismatch("simann_trace", {"trace": dict(t, events=t["events"][:max(0, at - 3)][-6:] + t["events"][max(0, at - 3):at + 2])},
                             "sim_ann D=%s: the observed execution is not a behaviour of SimAnn: rejected at event %d of %d "
                             "(model: level %d, iteration %d, p=%s A=%s total=%s; observed: %s, returned p=%s A=%s total=%s)" % (
                                 t["D"], at, len(t["events"]), v["level"], v["it"], v["p"], v["A"], v["total"],
                                 t["events"][at - 1] if at <= len(t["events"]) else "return", t["p"], t["A"], t["total"]))
    ctx.assumptions += ["the kernel is executed by source transliteration with an injected rand(); the temperature is abstracted to "
                        "the number of cooling steps; D is an antisymmetric integer matrix",
                        "the acceptance probability is not modelled: a non-improving swap may or may not be taken at any temperature"]
    return ctx.finish(rule="exhaustive on small loop bounds; simulated behaviours and observed executions with the code's bounds")


OBJ_INVS = ["WarnOnce", "WarnIffNeeded", "PrintedImpliesWarned", "SortIdempotent", "NonEmptyView"]
OBJ_PROPS = ["SortedAfterSort", "SortKeepsMultiset", "CopyIsEqual", "OnlyTargetChanges", "MeasuresLeaveTrains", "ScalarEdge"]


def x02(ctx):
    """SpikeTrain objects (construct / sort / copy / edit) and the once-only fallback warning: Objects.tla"""
    q = ctx.tier == QUICK
    cfgs = [dict(T0=1, T1=4, Vals="{1, 2, 4}", MaxLen=2, MaxOps=3),
            dict(T0="<- Neg2", T1=3, Vals="{0, 3}", MaxLen=3, MaxOps=2)]
    if not q:
        cfgs += [dict(T0=0, T1=5, Vals="{0, 2, 3, 5}", MaxLen=3, MaxOps=3)]
    for c in cfgs:
        for compiled in ("FALSE", "TRUE"):
            cc = dict(c, Compiled=compiled)
            res = run_tlc("Objects", cc, OBJ_INVS, properties=OBJ_PROPS, view="View", action_constraints=["TransExport"],
                          workers=16, timeout=3000)
            ctx.add_tlc(res, "sessions of <= %d operations on two train objects, kernels %s" % (
                c["MaxOps"], "importable" if compiled == "TRUE" else "not importable"))
            if res.violated:
                continue
            ex = [r for r in res.exports if r.get("k") == "otrans"]
            # one representative per (operation, pre-state, arguments): the export repeats transitions
            seen = set()
            uniq = []
            for r in ex:
                key = repr((r["pre"], r["op"], r["warned"]))
                if key not in seen:
                    seen.add(key)
                    uniq.append(r)
            for r in uniq:
                ctx.count_actions([r["op"]["f"] if r["op"]["f"] in ("new", "sort", "copy", "write", "disable") else "measure"], "Objects.")
                ctx.count_path("obj:%s:%s:%s" % (r["op"]["f"], r["warned"], r["printed"]))
            ctx.sample(uniq[len(uniq) // 2])
            replay.run(ctx, "objects", uniq, backends=(("shim",) if compiled == "TRUE" else ("py",)), chunk=300)
    ctx.require_actions(["new", "sort", "copy", "write", "disable", "measure"], "Objects.")
    ctx.assumptions += ["spike times from a small value set, two objects, sessions of <= 3 operations, every transition replayed "
                        "from freshly built objects with the warning flag set to the pre-state"]
    return ctx.finish(rule="every transition (heap, flag, operation) reachable within MaxOps operations")


import re as _re


def _props():
    return {k.upper(): v for k, v in globals().items() if _re.match(r"[cx]\d\d$", k) and callable(v)}

"""Code -> spec: executions of the real code are recorded, rank-abstracted and validated by TLC
against the trace specification PoissonTrace.tla (batch of traces per TLC run)."""
import json
import os
import random

import numpy as np

from common import MachineryError, scratch, rmtree, REPO
from tlcrun import run_tlc


def rank_abstract(values):
    """order isomorphism of the distinct values onto 0..k-1"""
    distinct = sorted(set(values))
    return {v: i for i, v in enumerate(distinct)}


def poisson_traces(seed, count):
    import impl
    pyspike = impl.pyspike
    rnd = random.Random(seed)
    np.random.seed(seed % (2 ** 32))
    traces = []
    raw = []
    for k in range(count):
        form = k % 3
        rate = rnd.choice([0.05, 0.5, 2.0, 10.0, 40.0])
        if form == 0:
            t0, t1 = 0.0, rnd.choice([1.0, 10.0, 3.5])
            interval = t1                       # scalar form: [0, T]
        elif form == 1:
            t0 = rnd.choice([0.0, 2.0, -5.0, 100.0])
            t1 = t0 + rnd.choice([0.5, 1.0, 20.0])
            interval = (t0, t1)
        else:
            t0 = rnd.uniform(-3, 3)
            t1 = t0 + rnd.uniform(0.1, 5.0)
            interval = [t0, t1]
        st = pyspike.generate_poisson_spikes(rate, interval)
        sp = [float(x) for x in st.spikes]
        allv = [t0, t1, float(st.t_start), float(st.t_end)] + sp
        rk = rank_abstract(allv)
        # a repeated spike time must stay visible after the abstraction: ranks of the spikes, in order
        traces.append({"id": k, "fn": "poisson",
                       "call": {"t0": rk[t0], "t1": rk[t1]},
                       "ret": {"ts": rk[float(st.t_start)], "te": rk[float(st.t_end)], "sp": [rk[x] for x in sp]}})
        raw.append({"id": k, "rate": rate, "interval": interval, "n": len(sp)})
    return traces, raw


def merge_traces(seed, count):
    import impl
    pyspike = impl.pyspike
    rnd = random.Random(seed)
    traces = []
    raw = []
    data = []
    p = os.path.join(REPO, "test", "PySpike_testdata.txt")
    if os.path.exists(p):
        data = pyspike.load_spike_trains_from_txt(p, edges=(0, 4000))
    for k in range(count):
        if data and k % 2 == 0:
            sel = rnd.sample(range(len(data)), rnd.choice([2, 3, 5]))
            sts = [pyspike.SpikeTrain(data[i].spikes[:rnd.choice([0, 3, 8, 15])], [data[i].t_start, data[i].t_end]) for i in sel]
        else:
            n = rnd.choice([1, 2, 3, 4])
            pool = [round(rnd.uniform(0, 10), rnd.choice([0, 1, 6])) for _ in range(8)]
            sts = []
            for i in range(n):
                sp = sorted(rnd.choice(pool) for _ in range(rnd.choice([0, 1, 3, 6])))
                sts.append(pyspike.SpikeTrain(sp, [rnd.choice([0.0, -1.0]), rnd.choice([10.0, 12.0])]))
        m = pyspike.merge_spike_trains(sts)
        allv = [float(m.t_start), float(m.t_end)] + [float(x) for x in m.spikes]
        for s in sts:
            allv += [float(s.t_start), float(s.t_end)] + [float(x) for x in s.spikes]
        rk = rank_abstract(allv)
        traces.append({"id": k, "fn": "merge",
                       "call": {"maxrank": len(rk), "trains": [{"ts": rk[float(s.t_start)], "te": rk[float(s.t_end)],
                                                                "sp": [rk[float(x)] for x in s.spikes]} for s in sts]},
                       "ret": {"ts": rk[float(m.t_start)], "te": rk[float(m.t_end)], "sp": [rk[float(x)] for x in m.spikes]}})
        raw.append({"id": k, "sizes": [len(s.spikes) for s in sts]})
    return traces, raw


def validate(ctx, traces, raw, what, checker_name):
    """one TLC run over the whole batch; every rejected trace is a mismatch"""
    d = scratch("pyspike_tr_")
    try:
        path = os.path.join(d, "traces.json")
        with open(path, "w") as f:
            json.dump(traces, f)
        res = run_tlc("PoissonTrace", {}, ["Verdict"], init="TInit", nxt="TNext", workers=4, timeout=1800,
                      env={"TRACE_FILE": path})
        ctx.add_tlc(res, what)
        verdicts = {v["id"]: v["accepted"] for v in res.exports if v.get("k") == "verdict"}
        if len(verdicts) != len(traces):
            raise MachineryError("trace validation returned %d verdicts for %d traces" % (len(verdicts), len(traces)))
        for t, r in zip(traces, raw):
            ctx.traces += 1
            ctx.evaluations += 1
            if not verdicts[t["id"]]:
                ctx.mismatch(checker_name, {"trace": t, "raw": r},
                             "%s: recorded execution %s is not a behaviour of the specification (ranks: call=%s ret=%s)" % (
                                 t["fn"], r, t["call"], t["ret"]))
        return verdicts
    finally:
        rmtree(d)


def selftest_corruption(traces):
    """binding demonstration: a corrupted copy of the first non-trivial trace must be rejected"""
    import copy
    for t in traces:
        if len(t["ret"]["sp"]) >= 2:
            c = copy.deepcopy(t)
            c["id"] = 10 ** 6
            c["ret"]["sp"][0], c["ret"]["sp"][1] = c["ret"]["sp"][1], c["ret"]["sp"][0]
            return c
    return None


# ------------------------------------------------------------------------------------------------
# step-level traces of the pure-Python scans (hooks guarded by PYSPIKE_VERIF=1)
def _num(v):
    """hook values are integers on integer inputs: log them as ints, anything else as a string"""
    f = float(v)
    if f == int(f) and abs(f) < 2 ** 30:
        return int(f)
    return repr(f)


def _rand_train(rnd, T, maxsp):
    n = rnd.choice([0, 1, 1, 2, 3, 5, 8, 12, maxsp])
    n = min(n, T + 1)
    pts = sorted(rnd.sample(range(0, T + 1), n))
    if pts and rnd.random() < 0.15:
        pts[0] = 0
    if pts and rnd.random() < 0.15:
        pts[-1] = T
    return sorted(set(pts))


def scan_traces(kind, seed, count, T=60, maxsp=20):
    """run the hooked python backend on random integer trains over [0, T]; returns (traces, raw results)"""
    import impl
    from impl import PB
    from pyspike import _verif_hooks as vh
    if not vh.ON:
        raise MachineryError("hooks are off: PYSPIKE_VERIF=1 must be set before pyspike is imported")
    rnd = random.Random(seed)
    traces, raw = [], []
    for k in range(count):
        a = _rand_train(rnd, T, maxsp)
        b = _rand_train(rnd, T, maxsp) if rnd.random() > 0.1 else list(a)
        if rnd.random() < 0.2 and a:
            b = sorted(set(b) | set(rnd.sample(a, max(1, len(a) // 2))))[:maxsp]     # shared spike times
        mq = rnd.choice([0, 0, 2, 6, 10, 40, 100])
        tq = rnd.choice([0, 0, 4, 8, 20])
        ri = rnd.random() < 0.3
        vh.drain()
        A = np.array(a, dtype=float)
        B = np.array(b, dtype=float)
        ne = lambda s: np.array(s if len(s) else [0, T], dtype=float)      # get_spikes_non_empty
        if kind == "isi":
            x, y = PB.isi_distance_python(ne(a), ne(b), 0.0, float(T), mq / 4.0)
            res = {"y": [float(v) for v in y]}
            extra = {}
        elif kind == "spike":
            x, y1, y2 = PB.spike_distance_python(ne(a), ne(b), 0.0, float(T), mq / 4.0, ri)
            res = {"y1": [float(v) for v in y1], "y2": [float(v) for v in y2]}
            extra = {"ri": bool(ri)}
        else:
            x, c, mp = PB.coincidence_python(A, B, 0.0, float(T), tq / 4.0, mq / 4.0)
            res = {}
            extra = {"tq": tq, "c": [_num(v) for v in c], "mp": [_num(v) for v in mp]}
        events = [{kk: (vv if kk == "e" else _num(vv)) for kk, vv in e.items()} for e in vh.drain()]
        t = {"id": k, "a": a, "b": b, "mq": mq, "x": [_num(v) for v in x], "events": events, "nosteps": False}
        t.update(extra)
        traces.append(t)
        raw.append(res)
    return traces, raw


TRACE_MODULES = {"isi": ("IsiTrace", ["Correct", "InRange", "CursorBounds", "NuPositive"],
                         dict(MaxSp=1, MRTSQ="{0}", Trains="<- NoTrains")),
                 "spike": ("SpikeTrace", ["Correct", "InRange", "ZeroAtShared", "MinDistIsGlobal", "CursorBounds"],
                           dict(MaxSp=1, MRTSQ="{0}", RISet="{FALSE}", DevF9="FALSE", Trains="<- NoTrains")),
                 "sync": ("SyncTrace", ["Correct", "OneToOneInv", "Mutual", "PartnerIsPrevious", "HitsAreCoinc", "TauBounded", "InRange"],
                          dict(MaxSp=1, MRTSQ="{0}", TauQ="{0}", DevF1="FALSE", Trains="<- NoTrains"))}


def _tlc_traces(ctx, kind, traces, T, what):
    mod, invs, consts = TRACE_MODULES[kind]
    d = scratch("pyspike_tr_")
    try:
        path = os.path.join(d, "traces.json")
        with open(path, "w") as f:
            json.dump(traces, f)
        c = dict(consts)
        c.update(TS=0, TE=T)
        res = run_tlc(mod, c, invs + ["Verdict"], init="TInit", nxt="TNext", workers=16, timeout=900,
                      env={"TRACE_FILE": path})
        ctx.add_tlc(res, what)
        if res.violated:
            return None
        out = {}
        for v in res.exports:
            if v.get("k") == "verdict":
                # a trace is accepted iff its final state was reached un-rejected
                if v["id"] not in out or not v["accepted"]:
                    out[v["id"]] = v
        return out
    finally:
        rmtree(d)


def validate_scan(ctx, kind, seed, count, T=60, maxsp=20):
    """record `count` hooked executions, validate them as behaviours of the scan specification,
    compare the returned doubles with the exact values TLC prints on acceptance"""
    from common import fr, close
    traces, raw = scan_traces(kind, seed, count, T, maxsp)
    verdicts = _tlc_traces(ctx, kind, traces, T, "%d recorded executions of the %s scan (T=%d, <= %d spikes) validated step by step" % (count, kind, T, maxsp))
    if verdicts is None:
        return
    if len(verdicts) != len(traces):
        raise MachineryError("trace validation: %d verdicts for %d traces" % (len(verdicts), len(traces)))
    rejected = [t for t in traces if not verdicts[t["id"]]["accepted"]]
    drift = 0
    if rejected:
        # hook drift rule: re-validate without step events; only a rejected RETURN (or value) is a violation
        again = []
        for t in rejected:
            t2 = dict(t)
            t2["events"] = [e for e in t["events"] if e["e"].endswith(".ret")]
            t2["nosteps"] = True
            again.append(t2)
        v2 = _tlc_traces(ctx, kind, again, T, "re-validation of %d traces without step events" % len(again))
        for t in rejected:
            if v2 is not None and v2.get(t["id"], {}).get("accepted"):
                drift += 1
                verdicts[t["id"]] = v2[t["id"]]
            else:
                ctx.mismatch("trace_" + kind, {"trace": t},
                             "%s scan: recorded execution a=%s b=%s mq=%s is not a behaviour of the specification "
                             "(rejected at event %s: %s)" % (kind, t["a"], t["b"], t["mq"], verdicts[t["id"]]["at"],
                                                             t["events"][min(verdicts[t["id"]]["at"], len(t["events"])) - 1]))
    ctx.notes["hook_drift"] = ctx.notes.get("hook_drift", 0) + drift
    for t, r in zip(traces, raw):
        ctx.traces += 1
        ctx.evaluations += 1
        v = verdicts[t["id"]]
        if not v["accepted"]:
            continue
        ctx.count_path("trace:%s:%s" % (kind, "/".join(v.get("path", []))[:200]))
        for key in ("y", "y1", "y2"):
            if key in r:
                exp = [float(fr(q)) for q in v[key]]
                if len(exp) != len(r[key]) or not all(close(g, e) for g, e in zip(r[key], exp)):
                    ctx.mismatch("trace_" + kind, {"trace": t},
                                 "%s scan: a=%s b=%s mq=%s: returned %s = %s, exact values on the validated trace %s" % (
                                     kind, t["a"], t["b"], t["mq"], key, r[key], exp))
                    break
    if traces:
        s = dict(traces[len(traces) // 2])
        s["events"] = s["events"][:4] + ["..."]
        ctx.sample(s, limit=8)


# ------------------------------------------------------------------------------------------------
# session-level traces: public entry points on lists beyond the enumeration bound of Multi.tla
MULTI_FNS = ["isi_profile", "sync_profile", "order_profile", "isi_distance", "sync", "order", "isi_matrix",
             "sync_matrix", "dir_matrix", "dir_values", "filter"]
# (multivariate SPIKE values have denominators that overflow TLC's 32-bit integers on these larger inputs;
#  they are covered exhaustively on the small grids of Multi.tla)


def multi_traces(seed, count, T=12, maxsp=5, nmax=6, mrts4=0, tau4=0, ri=False):
    import impl
    import checkers_multi as cm
    rnd = random.Random(seed)
    recs = []
    for k in range(count):
        fn = rnd.choice(MULTI_FNS)
        n = rnd.choice([2, 3, 4, 5, nmax])
        if fn.startswith("spike"):
            n = min(n, 3)            # SPIKE values have large denominators: keep the exact sums inside 32 bits
        trs = []
        for i in range(n):
            if trs and rnd.random() < 0.15:
                trs.append(list(rnd.choice(trs)))          # repeated train
            else:
                trs.append(_rand_train(rnd, T, maxsp)[:maxsp])
        if rnd.random() < 0.5 or fn == "filter":
            idx = list(range(1, n + 1))
        else:
            m = rnd.randint(2, n)
            idx = rnd.sample(range(1, n + 1), m)
        iv = 0
        if fn in ("isi_distance", "spike_distance", "sync", "isi_matrix", "sync_matrix") and rnd.random() < 0.5:
            i = rnd.randint(0, 2 * T - 1)
            j = rnd.randint(i + 1, 2 * T)
            iv = 100 * i + j
        thr = rnd.choice([1, 12, 13, 23, 11, 34, 14]) if fn == "filter" else 12
        call = {"fn": fn, "idx": idx, "iv": iv, "thr": thr, "norm": fn == "dir_matrix" and rnd.random() < 0.5}
        recs.append({"id": k, "ts": 0, "te": T, "tr": trs, "call": call,
                     "mrts": [mrts4, 4], "mtau": [tau4, 4], "ri": ri})
    return recs


def validate_multi(ctx, seed, count, T=12, maxsp=5, nmax=6, mrts4=0, tau4=0, ri=False, backends=("py", "shim")):
    """recorded calls of the session level validated against Multi!Eval; returned values compared"""
    import impl
    import checkers_multi as cm
    from impl import call as _call
    recs = multi_traces(seed, count, T, maxsp, nmax, mrts4, tau4, ri)
    # the iv code uses 100*i+j with j <= 2T < 100
    d = scratch("pyspike_tr_")
    try:
        path = os.path.join(d, "traces.json")
        with open(path, "w") as f:
            json.dump([{"id": r["id"], "tr": r["tr"], "call": r["call"]} for r in recs], f)
        consts = dict(TS=0, TE=T, MaxSp=1, N=2, MRTS4=mrts4, TAU4=tau4, RIFlag="TRUE" if ri else "FALSE",
                      FnSet='{"none"}', IdxMode='"none"', IvCodes="{0}", ThrCodes="{12}", Sample=0, PoolMode='"all"', ErrorPaths="FALSE",
                      AllTrains="<- NoTrains")
        res = run_tlc("MultiTrace", consts, ["Expected"], init="TInit", nxt="TNext", workers=16, timeout=1800,
                      env={"TRACE_FILE": path})
        ctx.add_tlc(res, "%d recorded session-level calls (<= %d trains, <= %d spikes, T=%d) evaluated by Multi!Eval" % (count, nmax, maxsp, T))
        if res.violated:
            return
        exp = {v["id"]: v["res"] for v in res.exports if v.get("k") == "expected"}
        if len(exp) != len(recs):
            raise MachineryError("session traces: %d expectations for %d calls" % (len(exp), len(recs)))
    finally:
        rmtree(d)
    import contextlib
    for be in backends:
        impl.set_backend(be)
        for r in recs:
            rec = dict(r)
            rec["res"] = exp[r["id"]]
            sts = cm.trains_of(rec)
            ident = rec["call"]["idx"] == list(range(1, len(rec["tr"]) + 1))
            with open(os.devnull, "w") as dn, contextlib.redirect_stdout(dn):
                st, out = _call(cm.invoke, rec, sts, "sub" if ident else "idx")
            ctx.traces += 1
            ctx.evaluations += 1
            ctx.count_path("session-trace:%s:%d:%s" % (rec["call"]["fn"], len(rec["tr"]), len(rec["call"]["idx"])))
            if st != "ok":
                ctx.mismatch("trace_multi", dict(rec, _backend=be), "session trace [%s] %s raised %s" % (be, cm.hdr(rec), out))
                continue
            got, want = cm.norm_result(rec, out), cm.expected_result(rec)
            if not cm.equal_results(want, got):
                ctx.mismatch("trace_multi", dict(rec, _backend=be),
                             "session trace [%s] %s: returned %s, the specification gives %s" % (be, cm.hdr(rec), cm.rstr(got), cm.rstr(want)))
    impl.set_backend("py")
    if recs:
        ctx.sample({"session_trace": recs[len(recs) // 2]}, limit=8)


def random_pair_records(seed, count, T=60, maxsp=20):
    """argument tuples beyond the enumeration bound for the code-vs-code twin comparison (C12)"""
    rnd = random.Random(seed)
    recs = []
    for k in range(count):
        a = _rand_train(rnd, T, maxsp)
        b = _rand_train(rnd, T, maxsp) if rnd.random() > 0.1 else list(a)
        if rnd.random() < 0.25 and a:
            b = sorted(set(b) | set(rnd.sample(a, max(1, len(a) // 2))))[:maxsp]
        recs.append({"k": "random", "a": a, "b": b, "ts": 0, "te": T,
                     "mrts": [rnd.choice([0, 0, 2, 6, 10, 40, 100, 300]), 4],
                     "mtau": [rnd.choice([0, 0, 4, 8, 20, 130, 400]), 4],
                     "ri": rnd.random() < 0.4, "path": ["random"]})
    return recs


# ------------------------------------------------------------------------------------------------
# long inputs for the add routines (AddTrace.tla)
def _long_fn(rnd, kind, T, n):
    """integer breakpoints in [0, T], integer values; pwl pieces have integer slopes (values at integer times
    are integers); disc: events may sit on the edges, the edge entries repeat their neighbours"""
    inner = sorted(rnd.sample(range(1, T), n))
    if kind == "disc":
        ev = list(inner)
        if rnd.random() < 0.3:
            ev = [0] + ev
        if rnd.random() < 0.3:
            ev = ev + [T]
        y = [rnd.randint(-4, 6) for _ in ev]
        mp = [rnd.randint(1, 3) for _ in ev]
        return {"x": [0] + ev + [T], "y1": [y[0]] + y + [y[-1]], "y2": [mp[0]] + mp + [mp[-1]]}
    x = [0] + inner + [T]
    if kind == "pwc":
        y = [rnd.randint(-5, 5) for _ in range(len(x) - 1)]
        return {"x": x, "y1": y, "y2": y}
    y1, y2 = [], []
    for k in range(len(x) - 1):
        a = rnd.randint(-5, 5)
        y1.append(a)
        y2.append(a + rnd.randint(-2, 2) * (x[k + 1] - x[k]))
    return {"x": x, "y1": y1, "y2": y2}


def validate_add(ctx, kinds, seed, count, T=300, n=110):
    """recorded f.add(g) on long functions under both backends against the sum the specification computes"""
    import random
    import impl
    from checkers_func import mk, arrays, same, show
    from common import fr as fr_
    rnd = random.Random(seed)
    traces = []
    for t in range(count):
        kind = kinds[t % len(kinds)]
        nf = rnd.choice([3, n // 2, n, n + 30])
        ng = rnd.choice([2, n // 3, n, n + 40])
        f, g = _long_fn(rnd, kind, T, nf), _long_fn(rnd, kind, T, ng)
        if rnd.random() < 0.5:       # many shared breakpoints
            keep = sorted(set(f["x"][1:-1][::2]) | set(g["x"][1:-1][:5]))
            if kind != "disc":
                y = [rnd.randint(-5, 5) for _ in range(len(keep) + 1)]
                g = {"x": [0] + keep + [T], "y1": y, "y2": y if kind == "pwc" else [v + (b - a) for v, a, b in zip(y, [0] + keep, keep + [T])]}
        traces.append({"id": t + 1, "kind": kind, "f": f, "g": g})
    d = scratch("pyspike_add_")
    try:
        path = os.path.join(d, "traces.json")
        with open(path, "w") as fh:
            json.dump(traces, fh)
        res = run_tlc("AddTrace", {}, ["SumWellFormed", "Verdict"], init="TInit", nxt="TNext", workers=8, timeout=3000,
                      env={"TRACE_FILE": path})
    finally:
        rmtree(d)
    ctx.add_tlc(res, "%d recorded add calls on functions with up to %d breakpoints (T = %d): the sum the transcribed routines give" % (count, n + 40, T))
    if res.violated:
        return
    sums = {v["id"]: v["r"] for v in res.exports if v.get("k") == "addsum"}
    if len(sums) != len(traces):
        raise MachineryError("AddTrace returned %d sums for %d calls" % (len(sums), len(traces)))
    for be in ("py", "shim"):
        impl.set_backend(be)
        for t in traces:
            kind = t["kind"]
            a, b = mk(kind, t["f"]), mk(kind, t["g"])
            snap = arrays(kind, b)
            st, r = impl.call(lambda: a.add(b))
            ctx.traces += 1
            ctx.evaluations += len(sums[t["id"]]["x"])
            what = "%s add, %d + %d breakpoints [%s]" % (kind, len(t["f"]["x"]), len(t["g"]["x"]), be)
            if st != "ok":
                ctx.mismatch("add_long", {"trace": t, "backend": be}, "%s raised %s" % (what, r))
                continue
            exp = sums[t["id"]]
            got = arrays(kind, a)
            e = ([float(v) for v in exp["x"]], [float(fr_(v)) for v in exp["y1"]], [float(fr_(v)) for v in exp["y2"]])
            if kind == "pwc":
                e = e[:2]
            if not same(got, e, 1.0, disc=(kind == "disc")):
                k0 = next((i for i, (u, v) in enumerate(zip(list(got[0]), e[0])) if u != v), min(len(got[0]), len(e[0])))
                ctx.mismatch("add_long", {"trace": t, "backend": be},
                             "%s: the sum has %d breakpoints, the specification %d; first difference at position %d: %s / %s" % (
                                 what, len(got[0]), len(e[0]), k0, [list(map(float, c[max(0, k0 - 1):k0 + 2])) for c in got],
                                 [c[max(0, k0 - 1):k0 + 2] for c in e]))
                continue
            if not all(np.array_equal(u, v) for u, v in zip(arrays(kind, b), snap)):
                ctx.mismatch("add_long", {"trace": t, "backend": be}, "%s: the added operand was modified" % what)
    impl.set_backend("py")
    ctx.count_actions(["add.%s" % k for k in kinds], "AddTrace.")

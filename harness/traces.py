"""Code -> spec: executions of the real code are recorded, rank-abstracted and validated by TLC
against the trace specification PoissonTrace.tla (batch of traces per TLC run)."""
import json
import os
import random

import numpy as np

from common import MachineryError, scratch, rmtree, REPO
from tlcrun import run_tlc


def rank_abstract(values):
    """order isomorphism of the distinct values onto 0..k-1"""
    distinct = sorted(set(values))
    return {v: i for i, v in enumerate(distinct)}


def poisson_traces(seed, count):
    import impl
    pyspike = impl.pyspike
    rnd = random.Random(seed)
    np.random.seed(seed % (2 ** 32))
    traces = []
    raw = []
    for k in range(count):
        form = k % 3
        rate = rnd.choice([0.05, 0.5, 2.0, 10.0, 40.0])
        if form == 0:
            t0, t1 = 0.0, rnd.choice([1.0, 10.0, 3.5])
            interval = t1                       # scalar form: [0, T]
        elif form == 1:
            t0 = rnd.choice([0.0, 2.0, -5.0, 100.0])
            t1 = t0 + rnd.choice([0.5, 1.0, 20.0])
            interval = (t0, t1)
        else:
            t0 = rnd.uniform(-3, 3)
            t1 = t0 + rnd.uniform(0.1, 5.0)
            interval = [t0, t1]
        st = pyspike.generate_poisson_spikes(rate, interval)
        sp = [float(x) for x in st.spikes]
        allv = [t0, t1, float(st.t_start), float(st.t_end)] + sp
        rk = rank_abstract(allv)
        # a repeated spike time must stay visible after the abstraction: ranks of the spikes, in order
        traces.append({"id": k, "fn": "poisson",
                       "call": {"t0": rk[t0], "t1": rk[t1]},
                       "ret": {"ts": rk[float(st.t_start)], "te": rk[float(st.t_end)], "sp": [rk[x] for x in sp]}})
        raw.append({"id": k, "rate": rate, "interval": interval, "n": len(sp)})
    return traces, raw


def merge_traces(seed, count):
    import impl
    pyspike = impl.pyspike
    rnd = random.Random(seed)
    traces = []
    raw = []
    data = []
    p = os.path.join(REPO, "test", "PySpike_testdata.txt")
    if os.path.exists(p):
        data = pyspike.load_spike_trains_from_txt(p, edges=(0, 4000))
    for k in range(count):
        if data and k % 2 == 0:
            sel = rnd.sample(range(len(data)), rnd.choice([2, 3, 5]))
            sts = [pyspike.SpikeTrain(data[i].spikes[:rnd.choice([0, 3, 8, 15])], [data[i].t_start, data[i].t_end]) for i in sel]
        else:
            n = rnd.choice([1, 2, 3, 4])
            pool = [round(rnd.uniform(0, 10), rnd.choice([0, 1, 6])) for _ in range(8)]
            sts = []
            for i in range(n):
                sp = sorted(rnd.choice(pool) for _ in range(rnd.choice([0, 1, 3, 6])))
                sts.append(pyspike.SpikeTrain(sp, [rnd.choice([0.0, -1.0]), rnd.choice([10.0, 12.0])]))
        m = pyspike.merge_spike_trains(sts)
        allv = [float(m.t_start), float(m.t_end)] + [float(x) for x in m.spikes]
        for s in sts:
            allv += [float(s.t_start), float(s.t_end)] + [float(x) for x in s.spikes]
        rk = rank_abstract(allv)
        traces.append({"id": k, "fn": "merge",
                       "call": {"maxrank": len(rk), "trains": [{"ts": rk[float(s.t_start)], "te": rk[float(s.t_end)],
                                                                "sp": [rk[float(x)] for x in s.spikes]} for s in sts]},
                       "ret": {"ts": rk[float(m.t_start)], "te": rk[float(m.t_end)], "sp": [rk[float(x)] for x in m.spikes]}})
        raw.append({"id": k, "sizes": [len(s.spikes) for s in sts]})
    return traces, raw


def validate(ctx, traces, raw, what, checker_name):
    """one TLC run over the whole batch; every rejected trace is a mismatch"""
    d = scratch("pyspike_tr_")
    try:
        path = os.path.join(d, "traces.json")
        with open(path, "w") as f:
            json.dump(traces, f)
        res = run_tlc("PoissonTrace", {}, ["Verdict"], init="TInit", nxt="TNext", workers=4, timeout=1800,
                      env={"TRACE_FILE": path})
        ctx.add_tlc(res, what)
        verdicts = {v["id"]: v["accepted"] for v in res.exports if v.get("k") == "verdict"}
        if len(verdicts) != len(traces):
            raise MachineryError("trace validation returned %d verdicts for %d traces" % (len(verdicts), len(traces)))
        for t, r in zip(traces, raw):
            ctx.traces += 1
            ctx.evaluations += 1
            if not verdicts[t["id"]]:
                ctx.mismatch(checker_name, {"trace": t, "raw": r},
                             "%s: recorded execution %s is not a behaviour of the specification (ranks: call=%s ret=%s)" % (
                                 t["fn"], r, t["call"], t["ret"]))
        return verdicts
    finally:
        rmtree(d)


def selftest_corruption(traces):
    """binding demonstration: a corrupted copy of the first non-trivial trace must be rejected"""
    import copy
    for t in traces:
        if len(t["ret"]["sp"]) >= 2:
            c = copy.deepcopy(t)
            c["id"] = 10 ** 6
            c["ret"]["sp"][0], c["ret"]["sp"][1] = c["ret"]["sp"][1], c["ret"]["sp"][0]
            return c
    return None

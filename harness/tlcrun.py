"""Run TLC on a module of /verif/spec with a generated cfg, under an outer timeout.

Every invocation gets its own scratch directory under /tmp (metadir, cfg, stdout) which is
removed afterwards.  Lines printed by PrintT(ToJson(..)) are TLA+ string literals that contain
JSON; they are parsed into `exports`.  A TLC error that is not an invariant / property violation
(parse error, evaluation error, overflow, timeout) is a MachineryError.
"""
import json
import os
import re
import subprocess
import time

from common import SPEC, MachineryError, scratch, rmtree

JAR = "/opt/veriftools/tla/tla2tools.jar:/opt/veriftools/tla/CommunityModules-deps.jar"


def _die_with_parent():
    """the JVM must not outlive a killed check (PR_SET_PDEATHSIG = 1)"""
    try:
        import ctypes
        import signal
        ctypes.CDLL("libc.so.6").prctl(1, signal.SIGKILL)
    except Exception:
        pass


class TLCResult(object):
    def __init__(self):
        self.generated = 0
        self.distinct = 0
        self.exports = []
        self.violated = None      # name of the violated invariant / property
        self.error_trace = None   # text of the counterexample
        self.wall = 0.0
        self.module = None
        self.constants = None
        self.coverage = {}
        self.depth = None
        self.simulated = 0


def write_cfg(path, constants, invariants, properties=(), init="Init", nxt="Next",
              constraints=(), action_constraints=(), view=None, spec=None, postcondition=None):
    with open(path, "w") as f:
        if constants:
            f.write("CONSTANTS\n")
            for k, v in constants.items():
                if isinstance(v, str) and v.startswith("<-"):
                    f.write("  %s %s\n" % (k, v))
                else:
                    f.write("  %s = %s\n" % (k, v))
        if spec:
            f.write("SPECIFICATION %s\n" % spec)
        else:
            f.write("INIT %s\nNEXT %s\n" % (init, nxt))
        f.write("CHECK_DEADLOCK FALSE\n")
        for c in constraints:
            f.write("CONSTRAINT %s\n" % c)
        for c in action_constraints:
            f.write("ACTION_CONSTRAINT %s\n" % c)
        if view:
            f.write("VIEW %s\n" % view)
        for inv in invariants:
            f.write("INVARIANT %s\n" % inv)
        for p in properties:
            f.write("PROPERTY %s\n" % p)
        if postcondition:
            f.write("POSTCONDITION %s\n" % postcondition)


def tla_set(xs):
    return "{" + ", ".join(str(x) for x in xs) + "}"


def tla_bool(b):
    return "TRUE" if b else "FALSE"


def run_tlc(module, constants, invariants, properties=(), init="Init", nxt="Next",
            constraints=(), action_constraints=(), view=None, workers=8, timeout=900,
            simulate=None, depth=None, seed=None, env=None, on_export=None, coverage=False,
            postcondition=None, keep_exports=True, extra_args=(), java_opts=None, spec=None):
    """simulate: None (exhaustive BFS) or number of behaviours (per run, workers forced to 1)"""
    d = scratch("pyspike_tlc_")
    res = TLCResult()
    res.module = module
    res.constants = dict(constants)
    try:
        cfg = os.path.join(d, module + ".cfg")
        write_cfg(cfg, constants, invariants, properties, init, nxt, constraints,
                  action_constraints, view, postcondition=postcondition, spec=spec)
        cmd = ["java", "-XX:+UseParallelGC", "-XX:ParallelGCThreads=4", "-Xmx8g", "-Xss16m"]
        if java_opts:
            cmd += list(java_opts)
        cmd += ["-cp", JAR, "tlc2.TLC",
                "-metadir", os.path.join(d, "meta"), "-noGenerateSpecTE", "-config", cfg]
        if simulate is not None:
            cmd += ["-simulate", "num=%d" % simulate, "-workers", "1"]
            if depth:
                cmd += ["-depth", str(depth)]
        else:
            cmd += ["-workers", str(workers)]
        if seed is not None:
            cmd += ["-seed", str(seed)]
        if coverage:
            cmd += ["-coverage", "1"]
        cmd += list(extra_args)
        cmd += [os.path.join(SPEC, module + ".tla")]
        e = dict(os.environ)
        if env:
            e.update(env)
        t0 = time.time()
        out_path = os.path.join(d, "stdout")
        with open(out_path, "w") as outf:
            try:
                p = subprocess.run(cmd, cwd=SPEC, stdout=outf, stderr=subprocess.STDOUT,
                                   timeout=timeout, env=e, preexec_fn=_die_with_parent)
                rc = p.returncode
            except subprocess.TimeoutExpired:
                raise MachineryError("TLC timed out after %ds on %s %r" % (timeout, module, constants))
        res.wall = time.time() - t0
        other = []
        in_trace = False
        trace = []
        with open(out_path) as f:
            for line in f:
                if line.startswith('"{') or line.startswith('"['):
                    try:
                        rec = json.loads(json.loads(line))
                    except ValueError:
                        raise MachineryError("unparsable export line from TLC: %r" % line[:200])
                    if on_export is not None:
                        on_export(rec)
                    if keep_exports:
                        res.exports.append(rec)
                    continue
                other.append(line)
                m = re.match(r"^(\d+) states generated, (\d+) distinct states found", line)
                if m:
                    res.generated = int(m.group(1))
                    res.distinct = int(m.group(2))
                m = re.match(r"^The depth of the complete state graph search is (\d+)", line)
                if m:
                    res.depth = int(m.group(1))
                m = re.match(r"^Error: Invariant (\S+) is violated", line)
                if m:
                    res.violated = m.group(1)
                    in_trace = True
                m = re.match(r"^Error: Action property (\S+) is violated", line)
                if m:
                    res.violated = m.group(1)
                    in_trace = True
                if re.match(r"^Error: Temporal properties were violated", line):
                    res.violated = "temporal"
                    in_trace = True
                m = re.match(r"^The number of states generated: (\d+)", line)
                if m:   # simulation mode
                    res.generated = int(m.group(1))
                    res.distinct = max(res.distinct, int(m.group(1)))
                m = re.match(r"^<(\w+) line \d+, col \d+ to line \d+, col \d+ of module (\w+)>: (\d+):(\d+)", line)
                if m:
                    res.coverage[m.group(1)] = res.coverage.get(m.group(1), 0) + int(m.group(4))
                if in_trace:
                    trace.append(line)
        text = "".join(other)
        if res.violated:
            res.error_trace = "".join(trace)[:20000]
            return res
        if "Error:" in text or rc != 0:
            # simulation mode ends with rc 0; anything else here is a machinery failure
            errs = [l for l in text.split("\n") if l.startswith("Error:")][:4]
            tail = "\n".join(errs + text.strip().split("\n")[-12:])
            raise MachineryError("TLC failed on %s %r (rc=%s):\n%s" % (module, constants, rc, tail))
        if simulate is None and "Model checking completed. No error has been found." not in text:
            raise MachineryError("TLC did not complete on %s:\n%s" % (module, text[-3000:]))
        return res
    finally:
        rmtree(d)

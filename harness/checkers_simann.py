"""Binding of SimAnn.tla to cython_simulated_annealing.pyx (coverage extension X01, DESIGN.md 11).

spec -> code : a behaviour of SimAnn (the sequence of draws exported by TLC) is turned into a script
               of rand() values; the kernel must consume exactly that script and return the
               permutation, objective and iteration count of the model's final state.
code -> spec : the kernel runs on a seeded generator; rand(), every read of D and every write of p
               are observed; the events are validated by SimAnnTrace.tla.
The kernel is executed by source transliteration (pyxshim.build_simann), as no Cython compiler exists.
"""
import random
import sys

import numpy as np

import impl
from impl import pyspike, call
from common import close, MachineryError, REPO
from replay import checker
import pyxshim

RAND_MAX = 2147483647
ALPHA = 0.9


def _mm(sub, text, observed=None, expected=None):
    return {"sub": sub, "text": text, "observed": observed, "expected": expected}


class ScriptExhausted(Exception):
    pass


class Script(object):
    def __init__(self, values):
        self.v = list(values)
        self.k = 0

    def __call__(self):
        if self.k >= len(self.v):
            raise ScriptExhausted("rand() called %d times, the behaviour of the model has %d draws" % (self.k + 1, len(self.v)))
        r = self.v[self.k]
        self.k += 1
        return r


def script_of(hist, N):
    out = []
    for n, (i, acc, up) in enumerate(hist):
        out.append((i - 1) + (N - 1) * ((n * 7919) % 100003))
        if not up:
            out.append(0 if acc else RAND_MAX)
    return out


def t_end_for(t_start, levels):
    """a final temperature that lets exactly `levels` temperatures run (T_k = T_start * ALPHA^k)"""
    return t_start * ALPHA ** (levels - 0.5)


def install_wrapper_kernel(mod):
    import pyspike.cython as pkg
    sys.modules["pyspike.cython.cython_simulated_annealing"] = mod
    setattr(pkg, "cython_simulated_annealing", mod)


def uninstall_wrapper_kernel():
    import pyspike.cython as pkg
    sys.modules.pop("pyspike.cython.cython_simulated_annealing", None)
    if hasattr(pkg, "cython_simulated_annealing"):
        delattr(pkg, "cython_simulated_annealing")


@checker("simann")
def chk_simann(rec, be):
    """one behaviour of SimAnn replayed through the kernel (and, when it ends by convergence within the
    wrapper's own 110 temperatures, through _optimal_spike_train_sorting_from_matrix)"""
    out = []
    n = 0
    D0 = np.array(rec["D"], dtype=float)
    N = D0.shape[0]
    hist = rec["hist"]
    exp_p = [v - 1 for v in rec["p"]]
    sub = "sim_ann"
    hdr = "D=%s iterations=%d (levels=%d%s)" % (rec["D"], len(hist), rec["levels"], ", converged" if rec["conv"] else "")
    for sg in (1.0, 0.375):
        D = D0 * sg
        t_start = 2 * float(np.max(D))
        runs = [("kernel", None)]
        if rec.get("wrapper"):
            runs.append(("wrapper", None))
        for how, _ in runs:
            sc = Script(script_of(hist, N))
            mod = pyxshim.build_simann(REPO, sc)
            if how == "kernel":
                st, r = call(lambda: mod.sim_ann_cython(D.copy(), t_start, t_end_for(t_start, rec["nlev"]) if rec["nlev"] else 0.0, ALPHA))
            else:
                install_wrapper_kernel(mod)
                try:
                    from pyspike.spike_directionality import _optimal_spike_train_sorting_from_matrix as f
                    st, r = call(lambda: f(D.copy(), full_output=True))
                finally:
                    uninstall_wrapper_kernel()
            n += 1
            tag = "%s[%s,s=%g] %s" % (sub, how, sg, hdr)
            if st != "ok":
                out.append(_mm(sub, "%s raised %s" % (tag, r)))
                continue
            p, A, total = r
            if sc.k != len(sc.v):
                out.append(_mm(sub, "%s: the routine returned after %d of the %d draws of the model's behaviour" % (tag, sc.k, len(sc.v))))
                continue
            if [int(v) for v in p] != exp_p or int(total) != rec["total"] or not close(float(A), rec["A"] * sg, sg):
                out.append(_mm(sub, "%s: returned p=%s A=%r total_iter=%s, the model's final state is p=%s A=%r total=%s" % (
                    tag, [int(v) for v in p], float(A), int(total), exp_p, rec["A"] * sg, rec["total"]),
                    [[int(v) for v in p], float(A), int(total)], [exp_p, rec["A"] * sg, rec["total"]]))
                continue
            # the synfire indicator is the upper-triangle sum of the matrix in the returned order
            st, Dp = call(lambda: pyspike.permutate_matrix(D, np.asarray(p)))
            n += 1
            if st != "ok":
                out.append(_mm(sub, "%s: permutate_matrix raised %s" % (tag, Dp)))
                continue
            want = [[D[p[a], p[b]] for b in range(N)] for a in range(N)]
            if not np.array_equal(np.asarray(Dp), np.asarray(want)):
                out.append(_mm(sub, "%s: permutate_matrix(D, p) = %s expected D[p[n], p[m]] = %s" % (tag, np.asarray(Dp).tolist(), want)))
            elif not close(float(np.sum(np.triu(Dp, 0))), float(A), sg):
                out.append(_mm(sub, "%s: returned A=%r is not the upper-triangle sum %r of the permuted matrix" % (
                    tag, float(A), float(np.sum(np.triu(Dp, 0))))))
    return n, out


# ------------------------------------------------------------------------------------------------
# code -> spec
class Observer(object):
    def __init__(self, rnd):
        self.rnd = rnd
        self.obs = []

    def rand(self):
        r = self.rnd.randrange(0, RAND_MAX + 1)
        # acceptance draws: make both outcomes and the borderline values frequent
        c = self.rnd.random()
        if c < 0.05:
            r = 0
        elif c < 0.1:
            r = RAND_MAX
        self.obs.append(("R", r))
        return r

    def read(self, i, j):
        self.obs.append(("D", i, j))

    def write(self, i, v):
        self.obs.append(("W", i, v))


def events_of(obs, N):
    """one event per loop iteration: [position (1-based), swapped, acceptance draw consumed]
    segmentation: every iteration reads D exactly once, after its position draw"""
    ev = []
    k = 0
    n = len(obs)
    while k < n:
        if obs[k][0] != "R":
            return None, "iteration %d does not start with a draw: %s" % (len(ev) + 1, obs[k:k + 4])
        pos = obs[k][1] % (N - 1) + 1
        k += 1
        if k >= n or obs[k][0] != "D":
            return None, "iteration %d: no read of D after the position draw: %s" % (len(ev) + 1, obs[k:k + 4])
        k += 1
        drew = 0
        if k < n and obs[k][0] == "R" and (k + 1 >= n or obs[k + 1][0] != "D"):
            drew = 1
            k += 1
        w = 0
        while k < n and obs[k][0] == "W":
            w += 1
            k += 1
        if w not in (0, 2):
            return None, "iteration %d: %d writes to the permutation" % (len(ev) + 1, w)
        ev.append([pos, 1 if w else 0, drew])
    return ev, None


def record(seed, count, N, levels=None, via_wrapper=False, dmax=3):
    """run the kernel `count` times on random antisymmetric integer matrices; returns traces"""
    rnd = random.Random(seed)
    traces = []
    for t in range(count):
        D = np.zeros((N, N))
        for a in range(N):
            for b in range(a + 1, N):
                v = rnd.choice(range(-dmax, dmax + 1))
                D[a, b] = v
                D[b, a] = -v
        ob = Observer(random.Random(rnd.randrange(1 << 30)))
        mod = pyxshim.build_simann(REPO, ob.rand)
        pyxshim.C2D.observer = ob.read
        pyxshim.CLong.observer = ob.write
        try:
            t_start = 2 * float(np.max(D))
            if via_wrapper:
                install_wrapper_kernel(mod)
                try:
                    from pyspike.spike_directionality import _optimal_spike_train_sorting_from_matrix as f
                    st, r = call(lambda: f(D.copy(), full_output=True))
                finally:
                    uninstall_wrapper_kernel()
            else:
                st, r = call(lambda: mod.sim_ann_cython(D.copy(), t_start, t_end_for(t_start, levels) if t_start > 0 else 0.0, ALPHA))
        finally:
            pyxshim.C2D.observer = None
            pyxshim.CLong.observer = None
        tr = {"id": t + 1, "D": [[int(v) for v in row] for row in D], "N": N}
        if st != "ok":
            tr["error"] = r
            traces.append(tr)
            continue
        # np.triu(D) in the prologue reads through __array__, not element-wise: no D events before the loop
        ev, err = events_of(ob.obs, N)
        if ev is None:
            tr["error"] = "observation not understood: " + err
            traces.append(tr)
            continue
        p, A, total = r
        if float(A) != int(A):
            raise MachineryError("integer matrix gives a non-integer objective %r" % (A,))
        tr.update({"events": ev, "p": [int(v) + 1 for v in p], "A": int(A), "total": int(total)})
        traces.append(tr)
    return traces

"""Predicates that recognise the input class of each open known finding."""
from known import predicate

"""Replay of spec-exported records into the implementation, in parallel worker processes.

A *checker* is a function  chk(rec, backend) -> (n_evaluations, [mismatch, ...])  where a
mismatch is a dict {text, observed, expected, sub}.  Checkers never decide known-vs-violation;
the parent process does (ctx.mismatch)."""
import multiprocessing as mp
import os
import sys
import traceback

from common import MachineryError

CHECKERS = {}


def checker(name):
    def deco(f):
        CHECKERS[name] = f
        return f
    return deco


def _work(args):
    name, backends, recs = args
    import impl
    import checkers  # noqa: F401  registers
    # the library prints debug output (PieceWiseLinFunc.integral); workers report through return values
    saved_stdout = sys.stdout
    sys.stdout = open(os.devnull, "w")
    out = []
    n = 0
    try:
        for be in backends:
            impl.set_backend(be)
            f = CHECKERS[name]
            for idx, rec in recs:
                k, mm = f(rec, be)
                n += k
                for m in mm:
                    m["backend"] = be
                    out.append((idx, m))
        impl.set_backend("py")
        return ("ok", n, out)
    except MachineryError as e:
        return ("machinery", str(e), [])
    except Exception:
        return ("machinery", traceback.format_exc(), [])
    finally:
        sys.stdout = saved_stdout


def run(ctx, name, records, backends=("py", "shim"), nproc=None, chunk=400, limit_mismatch=200):
    """run checker `name` over all records under the given backends; report through ctx"""
    if nproc is None:
        nproc = min(16, os.cpu_count() or 1)
    idx = list(enumerate(records))
    jobs = [(name, tuple(backends), idx[i:i + chunk]) for i in range(0, len(idx), chunk)]
    results = []
    if nproc <= 1 or len(jobs) <= 1:
        results = [_work(j) for j in jobs]
    else:
        with mp.get_context("fork").Pool(min(nproc, len(jobs))) as pool:
            results = pool.map(_work, jobs)
    seen = 0
    reported = set()
    for st, n, out in results:
        if st != "ok":
            raise MachineryError("replay worker failed: %s" % n)
        ctx.evaluations += n
        for i, m in out:
            if m.get("advisory"):
                # behaviour outside the statement of the property: recorded, never a verdict
                adv = ctx.notes.setdefault("advisory_observations", [])
                if len(adv) < 5:
                    adv.append(m["text"][:300])
                ctx.notes["advisory_count"] = ctx.notes.get("advisory_count", 0) + 1
                continue
            if i in reported:
                continue          # one report per record
            reported.add(i)
            seen += 1
            if seen > limit_mismatch:
                continue
            rec = dict(records[i])
            rec["_backend"] = m.get("backend")
            rec["_sub"] = m.get("sub")
            ctx.mismatch(name, rec, m["text"], m.get("observed"), m.get("expected"))
    ctx.traces += len(records) * len(backends)
    return seen


def run_one(ctx, name, rec):
    """re-run a single record (used by --replay)"""
    import impl
    import checkers  # noqa: F401
    import contextlib
    bes = [rec["_backend"]] if rec.get("_backend") else ["py", "shim"]
    bad = 0
    for be in bes:
        impl.set_backend(be)
        with open(os.devnull, "w") as dn, contextlib.redirect_stdout(dn):
            k, mm = CHECKERS[name](rec, be)
        ctx.evaluations += k
        for m in mm:
            if m.get("advisory"):
                print("advisory: " + m["text"][:300])
                continue
            bad += 1
            r = dict(rec)
            r["_backend"] = be
            r["_sub"] = m.get("sub")
            ctx.mismatch(name, r, m["text"], m.get("observed"), m.get("expected"))
    impl.set_backend("py")
    ctx.traces += 1
    return bad

"""Checkers of engine C (session): lists of spike trains through the public entry points.
The cases (list, entry point, index selection, interval, keywords) and the expected results are
the states exported by spec/Multi.tla."""
import itertools

import numpy as np

import impl
from impl import pyspike, call, train
from common import fr, frl, close, fl, is_finite
from replay import checker
from checkers_rel import ptuple, same_profile, same_arrays, pstr


def _mm(sub, text, observed=None, expected=None):
    return {"sub": sub, "text": text, "observed": observed, "expected": expected}


API = {
    "isi_profile": "isi_profile", "spike_profile": "spike_profile", "sync_profile": "spike_sync_profile",
    "order_profile": "spike_train_order_profile", "isi_distance": "isi_distance",
    "spike_distance": "spike_distance", "sync": "spike_sync", "order": "spike_train_order",
    "isi_matrix": "isi_distance_matrix", "spike_matrix": "spike_distance_matrix",
    "sync_matrix": "spike_sync_matrix", "dir_matrix": "spike_directionality_matrix",
    "dir_values": "spike_directionality_values", "filter": "filter_by_spike_sync",
}
PROFILE_FNS = ("isi_profile", "spike_profile", "sync_profile", "order_profile")
SCALAR_FNS = ("isi_distance", "spike_distance", "sync", "order")
MATRIX_FNS = ("isi_matrix", "spike_matrix", "sync_matrix", "dir_matrix")
ARGS_FNS = PROFILE_FNS + SCALAR_FNS + ("dir_values",)      # accept trains as separate arguments
BI_FNS = PROFILE_FNS + SCALAR_FNS


def kwargs_of(rec, sg=1.0):
    cl = rec["call"]
    fn = cl["fn"]
    kw = {"MRTS": float(fr(rec["mrts"])) * sg}
    if fn in ("spike_profile", "spike_distance", "spike_matrix"):
        kw["RI"] = bool(rec["ri"])
    if fn in ("sync_profile", "order_profile", "sync", "order", "sync_matrix", "dir_matrix", "dir_values", "filter"):
        mt = float(fr(rec["mtau"])) * sg
        kw["max_tau"] = mt if mt > 0 else None
    if cl["iv"]:
        ts = rec["ts"]
        kw["interval"] = ((ts + (cl["iv"] // 100) / 2.0) * sg, (ts + (cl["iv"] % 100) / 2.0) * sg)
    if rec.get("_ivseq"):
        kw["interval"] = [(a * sg, b * sg) for a, b in rec["_ivseq"]]
    if fn == "dir_matrix":
        kw["normalize"] = bool(cl["norm"])
    return kw


def trains_of(rec, sg=1.0):
    return [train(s, rec["ts"], rec["te"], sg) for s in rec["tr"]]


def invoke(rec, sts, form, sg=1.0, idx=None):
    """call the entry point of rec in the given call form; idx: 0-based positions into sts"""
    cl = rec["call"]
    fn = cl["fn"]
    f = getattr(pyspike, API[fn])
    kw = kwargs_of(rec, sg)
    if idx is None:
        idx = [k - 1 for k in cl["idx"]]
    sub = [sts[k] for k in idx] if form in ("sub", "args", "bi") else None
    if fn == "filter":
        th = (cl["thr"] // 100) / float(cl["thr"] % 100)
        return f(sts, th, return_removed_spikes=True, **kw)
    if form == "idx":
        return f(sts, indices=list(idx), **kw)
    if form == "idx_np":
        return f(sts, indices=np.array(idx), **kw)
    if form == "idx_tuple":
        return f(tuple(sts), indices=tuple(idx), **kw)
    if form == "sub":
        return f(sub, **kw)
    if form == "args":
        return f(*sub, **kw)
    if form == "bi":
        return f(sub[0], sub[1], **kw)
    raise ValueError(form)


def forms_for(rec):
    cl = rec["call"]
    fn = cl["fn"]
    if fn == "filter":
        return ["sub"]
    forms = ["idx", "sub", "idx_np", "idx_tuple"]
    if fn in ARGS_FNS and (len(cl["idx"]) > 2 or fn == "dir_values"):
        forms.append("args")
    if fn in BI_FNS and len(cl["idx"]) == 2:
        forms.append("bi")
    return forms


def norm_result(rec, r):
    """result of a call in comparable form"""
    fn = rec["call"]["fn"]
    if fn in PROFILE_FNS:
        return ("profile", ptuple(r))
    if fn in SCALAR_FNS:
        return ("scalar", float(r))
    if fn in MATRIX_FNS:
        return ("matrix", np.asarray(r, float))
    if fn == "dir_values":
        return ("values", [np.asarray(v, float) for v in r])
    if fn == "filter":
        return ("filter", [[(np.asarray(s.spikes, float), s.t_start, s.t_end) for s in part] for part in r])
    raise ValueError(fn)


def same_function(a, b, sg=1.0):
    """two profiles denote the same function (C06 pins the multivariate profile pointwise, not its
    representation): pwc / pwl by both one-sided limits at the breakpoints of either; discrete by
    the summed (value, multiplicity) per event time, edge entries by position only"""
    if a[0] != b[0]:
        return False
    if not (close(a[1][0], b[1][0], sg) and close(a[1][-1], b[1][-1], sg)):
        return False
    if a[0] == "disc":
        def events(p):
            d = {}
            for x, y, m in list(zip(p[1], p[2], p[3]))[1:-1]:
                k = round(float(x) / sg, 9)
                u = d.get(k, (0.0, 0.0))
                d[k] = (u[0] + y, u[1] + m)
            return d
        ea, eb = events(a), events(b)
        return set(ea) == set(eb) and all(close(ea[k][0], eb[k][0]) and close(ea[k][1], eb[k][1]) for k in ea)
    def lims(p, t, right):
        x = p[1]
        y1 = p[2]
        y2 = p[3] if p[0] == "pwl" else p[2]
        n = len(x) - 1
        if right:
            k = max(i for i in range(n) if x[i] <= t + 1e-12 * max(sg, abs(t)))
        else:
            k = min(i for i in range(n) if t <= x[i + 1] + 1e-12 * max(sg, abs(t)))
        return y1[k] + (y2[k] - y1[k]) * (t - x[k]) / (x[k + 1] - x[k])
    pts = sorted(set(list(a[1]) + list(b[1])))
    for t in pts[:-1]:
        if not close(lims(a, t, True), lims(b, t, True)):
            return False
    for t in pts[1:]:
        if not close(lims(a, t, False), lims(b, t, False)):
            return False
    return True


def equal_results(p, q, sg=1.0):
    if p[0] != q[0]:
        return False
    t, a, b = p[0], p[1], q[1]
    if t == "profile":
        return same_profile(a, b, sg) or same_function(a, b, sg)
    if t == "scalar":
        return close(a, b)
    if t == "matrix":
        return a.shape == b.shape and all(close(x, y) for x, y in zip(a.ravel(), b.ravel()))
    if t == "values":
        return len(a) == len(b) and all(same_arrays(x, y) for x, y in zip(a, b))
    if t == "filter":
        return len(a) == len(b) and all(
            len(u) == len(v) and all(same_arrays(s1[0], s2[0], sg) and close(s1[1], s2[1], sg) and close(s1[2], s2[2], sg)
                                     for s1, s2 in zip(u, v)) for u, v in zip(a, b))
    return False


def rstr(p):
    t, a = p
    if t == "profile":
        return pstr(a)
    if t == "scalar":
        return repr(a)
    if t == "matrix":
        return str(np.round(a, 12).tolist())
    if t == "values":
        return str([fl(v) for v in a])
    return str([[fl(s[0]) for s in part] for part in a])


def expected_result(rec, sg=1.0):
    res = rec["res"]
    t = res["t"]
    if t in ("pwc", "pwl", "disc"):
        x = np.array([float(v) * sg for v in res["f"]["x"]])
        y1 = np.array([float(fr(v)) for v in res["f"]["y1"]])
        y2 = np.array([float(fr(v)) for v in res["f"]["y2"]])
        if t == "pwc":
            return ("profile", ("pwc", x, y1))
        return ("profile", (t, x, y1, y2))
    if t == "scalar":
        return ("scalar", float(fr(res["v"])))
    if t == "matrix":
        return ("matrix", np.array([[float(fr(v)) for v in row] for row in res["mat"]], float).reshape(
            len(res["mat"]), len(res["mat"])))
    if t == "values":
        return ("values", [np.array([float(fr(v)) for v in row], float) for row in res["lst"]])
    if t == "filter":
        ts, te = rec["ts"] * sg, rec["te"] * sg
        parts = []
        for lst in (res["lst"], res["lst2"]):
            parts.append([(np.array([float(e[0]) * sg for e in row], float), ts, te) for row in lst])
        return ("filter", parts)
    raise ValueError(t)


def hdr(rec):
    cl = rec["call"]
    return "trains=%s [%s,%s] %s idx=%s iv=%s thr=%s MRTS=%s max_tau=%s RI=%s" % (
        rec["tr"], rec["ts"], rec["te"], cl["fn"], cl["idx"], cl["iv"], cl["thr"], fr(rec["mrts"]),
        fr(rec["mtau"]), rec["ri"])


def snapshot(sts):
    return [(s.spikes.copy(), s.t_start, s.t_end) for s in sts]


def unchanged(sts, snap):
    return all(np.array_equal(s.spikes, sn[0]) and s.t_start == sn[1] and s.t_end == sn[2]
               for s, sn in zip(sts, snap))


# --------------------------------------------------------------------------- absolute (C04, C06, C17, C18)
@checker("multi_abs")
def chk_multi_abs(rec, be):
    out = []
    n = 0
    if rec["res"]["t"] == "error":
        # error paths are outside the 20 properties: advisory observation only
        sts = trains_of(rec)
        st, r = call(invoke, rec, sts, "idx")
        got = ("raise:" + r.split(":")[0]) if st != "ok" else "a value"
        if got != rec["res"]["err"]:
            m = _mm("error-path", "%s[%s] %s: the library answers with %s, the specification says %s" % (
                API[rec["call"]["fn"]], be, hdr(rec), got, rec["res"]["err"]))
            m["advisory"] = True
            out.append(m)
        return 1, out
    # the third unit (2^-40) puts neighbouring grid times closer together than any absolute tolerance down to 1e-12
    for sg in rec.get("_sigmas", (1.0, 2.0 ** -10, 2.0 ** -40)):
        sts = trains_of(rec, sg)
        snap = snapshot(sts)
        ident = rec["call"]["idx"] == list(range(1, len(rec["tr"]) + 1))
        form = "sub" if ident else "idx"
        st, r = call(invoke, rec, sts, form, sg)
        n += 1
        sub = "%s[%s,s=%g,%s]" % (API[rec["call"]["fn"]], be, sg, form)
        if st != "ok":
            out.append(_mm(sub, "%s %s raised %s" % (sub, hdr(rec), r)))
            continue
        got, exp = norm_result(rec, r), expected_result(rec, sg)
        if not equal_results(exp, got, sg):
            out.append(_mm(sub, "%s %s: result %s expected %s" % (sub, hdr(rec), rstr(got), rstr(exp)), rstr(got), rstr(exp)))
        if not unchanged(sts, snap):
            out.append(_mm(sub, "%s %s: the call modified its input trains" % (sub, hdr(rec))))
    return n, out


# --------------------------------------------------------------------------- call forms (C14)
@checker("multi_forms")
def chk_multi_forms(rec, be):
    out = []
    n = 0
    sts = trains_of(rec)
    base = None
    for form in forms_for(rec):
        st, r = call(invoke, rec, sts, form)
        n += 1
        sub = "%s[%s,%s]" % (API[rec["call"]["fn"]], be, form)
        if st != "ok":
            out.append(_mm(sub, "%s %s raised %s" % (sub, hdr(rec), r)))
            continue
        got = norm_result(rec, r)
        if base is None:
            base = (form, got)
        elif not equal_results(base[1], got):
            out.append(_mm(sub, "%s %s: form '%s' gives %s, form '%s' gives %s" % (
                sub, hdr(rec), base[0], rstr(base[1]), form, rstr(got))))
    # trains that still need clean-up (unsorted, a repeated time) on EQUAL edges: every form cleans them alike
    if "_ivseq" not in rec and any(len(s_.spikes) >= 2 for s_ in sts):
        messy = []
        for s_ in sts:
            sp = list(s_.spikes)
            if len(sp) >= 2:
                sp = [sp[-1]] + sp[:-1] + [sp[0]]            # unsorted, first spike repeated
            messy.append(pyspike.SpikeTrain(np.array(sp, float), [s_.t_start, s_.t_end], is_sorted=True))
        base = None
        for form in forms_for(rec):
            st, r = call(invoke, rec, messy, form)
            n += 1
            got = ("raise", r.split(":")[0]) if st != "ok" else norm_result(rec, r)
            if base is None:
                base = (form, got)
            elif (base[1][0] == "raise") != (got[0] == "raise") or (got[0] != "raise" and not equal_results(base[1], got)):
                out.append(_mm("%s[%s,%s]" % (API[rec["call"]["fn"]], be, form), "%s[%s] %s unsorted trains with a repeated time %s: "
                               "form '%s' gives %s, form '%s' gives %s" % (
                                   API[rec["call"]["fn"]], be, hdr(rec), [fl(m_.spikes) for m_ in messy], base[0],
                                   rstr(base[1]) if base[1][0] != "raise" else base[1], form, rstr(got) if got[0] != "raise" else got)))
                break
    # a list is only read: the same list object, edited in place between two calls, gives what a fresh list gives
    if len(sts) >= 2 and "_ivseq" not in rec:
        L = list(sts)
        s1, r1 = call(invoke, rec, L, "idx")
        L[0], L[-1] = L[-1], L[0]
        s2, r2 = call(invoke, rec, L, "idx")
        s3, r3 = call(invoke, rec, list(L), "idx")
        n += 1
        if s2 != s3 or (s2 == "ok" and not equal_results(norm_result(rec, r3), norm_result(rec, r2))):
            out.append(_mm("%s[%s,idx]" % (API[rec["call"]["fn"]], be), "%s[%s] %s: after exchanging the first and the last train IN the list "
                           "that was passed before, the call gives %s; a fresh list with the same trains gives %s" % (
                               API[rec["call"]["fn"]], be, hdr(rec), rstr(norm_result(rec, r2)) if s2 == "ok" else r2,
                               rstr(norm_result(rec, r3)) if s3 == "ok" else r3)))
    # an averaging interval may be a sequence of intervals: every call form averages over the same pieces
    # (the pieces reach both edges of the recording, so that only the gap in the middle is left out)
    fn = rec["call"]["fn"]
    if fn in ("isi_distance", "spike_distance", "sync", "order") and not rec["call"]["iv"] and "_ivseq" not in rec:
        ts, te = rec["ts"], rec["te"]
        q = (te - ts) / 4.0
        for seq in ([(ts, ts + q), (te - q, te)], [(te - q, te), (ts, ts + q)], [(ts + q / 2, ts + q), (ts + 2 * q, te - q / 2)]):
            r2 = dict(rec, _ivseq=seq)
            base = None
            for form in forms_for(rec):
                st, r = call(invoke, r2, sts, form)
                n += 1
                if st != "ok":
                    got = ("raise", r.split(":")[0])
                else:
                    got = norm_result(rec, r)
                if base is None:
                    base = (form, got)
                elif (base[1][0] == "raise") != (got[0] == "raise") or (got[0] != "raise" and not equal_results(base[1], got)):
                    out.append(_mm("%s[%s,%s]" % (API[fn], be, form), "%s[%s] %s interval=%s: form '%s' gives %s, form '%s' gives %s" % (
                        API[fn], be, hdr(rec), seq, base[0], rstr(base[1]) if base[1][0] != "raise" else base[1],
                        form, rstr(got) if got[0] != "raise" else got)))
                    break
    return n, out


# --------------------------------------------------------------------------- permutations (C06)
@checker("multi_perm")
def chk_multi_perm(rec, be):
    out = []
    n = 0
    sts = trains_of(rec)
    N = len(sts)
    fn = rec["call"]["fn"]
    ident = list(range(N))
    st, r = call(invoke, rec, sts, "sub", 1.0, ident)
    n += 1
    sub = "%s[%s]" % (API[fn], be)
    if st != "ok":
        return n, [_mm(sub, "%s %s raised %s" % (sub, hdr(rec), r))]
    base = norm_result(rec, r)
    perms = list(itertools.permutations(range(N)))
    if len(perms) > 6:
        perms = perms[1::4]
    for p in perms[1:] if len(perms) <= 6 else perms:
        st, r = call(invoke, rec, [sts[k] for k in p], "sub", 1.0, ident)
        n += 1
        if st != "ok":
            out.append(_mm(sub, "%s %s permutation %s raised %s" % (sub, hdr(rec), p, r)))
            continue
        got = norm_result(rec, r)
        exp = base
        if base[0] == "matrix":
            m = base[1]
            exp = ("matrix", np.array([[m[p[i]][p[j]] for j in range(N)] for i in range(N)], float))
        if not equal_results(exp, got):
            out.append(_mm(sub, "%s %s: list order %s gives %s, original order gives %s" % (
                sub, hdr(rec), p, rstr(got), rstr(exp))))
    # recordings of different length, each containing the previous one: the common interval (smallest start to
    # largest end) and with it every result is the same in every list order
    if fn != "filter" and not rec["call"]["iv"]:
        nest = [pyspike.SpikeTrain(np.array(s_.spikes, float), [s_.t_start - k, s_.t_end + 2 * k]) for k, s_ in enumerate(sts)]
        st, r = call(invoke, rec, nest, "sub", 1.0, ident)
        n += 1
        if st == "ok":
            base2 = norm_result(rec, r)
            for p in (tuple(reversed(range(N))), tuple(list(range(1, N)) + [0])):
                st, r = call(invoke, rec, [nest[k] for k in p], "sub", 1.0, ident)
                n += 1
                if st != "ok":
                    out.append(_mm(sub, "%s %s nested recordings, permutation %s raised %s" % (sub, hdr(rec), p, r)))
                    continue
                got = norm_result(rec, r)
                exp = base2
                if base2[0] == "matrix":
                    m = base2[1]
                    exp = ("matrix", np.array([[m[p[i]][p[j]] for j in range(N)] for i in range(N)], float))
                if not equal_results(exp, got):
                    out.append(_mm(sub, "%s %s recordings %s: list order %s gives %s, original order gives %s" % (
                        sub, hdr(rec), [(s_.t_start, s_.t_end) for s_ in nest], p, rstr(got), rstr(exp))))
    return n, out


# --------------------------------------------------------------------------- scalar = average of the profile (C05)
PROFILE_OF = {"isi_distance": "isi_profile", "spike_distance": "spike_profile", "sync": "sync_profile",
              "order": "order_profile"}


@checker("multi_avg")
def chk_multi_avg(rec, be):
    out = []
    n = 0
    fn = rec["call"]["fn"]
    variants = [(1.0, None), (2.0 ** 10, None), (2.0 ** -40, None)]
    if fr(rec["mrts"]) == 0:
        variants.append((1.0, "auto"))       # the same identity with the automatic threshold
        variants.append((1.0, "auto, recordings of different length"))
    for sg, mode in variants:
        sts = trains_of(rec, sg)
        forms = [f for f in forms_for(rec) if f in ("idx", "sub", "bi")]
        if mode is not None:
            if mode != "auto":
                sts = unequal_edges(sts)
            sub = "%s[%s,MRTS='%s']" % (API[fn], be, mode)
            for form in forms:
                st, v = call(invoke_mrts, rec, sts, form, sg, "auto")
                prec = dict(rec)
                prec["call"] = dict(rec["call"], fn=PROFILE_OF[fn], iv=0)
                st2, p = call(invoke_mrts, prec, sts, form, sg, "auto")
                n += 1
                if st != "ok" or st2 != "ok":
                    out.append(_mm(sub, "%s %s raised %s / %s" % (sub, hdr(rec), v if st != "ok" else "", p if st2 != "ok" else "")))
                    continue
                iv = kwargs_of(rec, sg).get("interval")
                st3, a = call(lambda: p.avrg(iv) if iv is not None else p.avrg())
                if st3 != "ok":
                    out.append(_mm(sub, "%s %s: profile.avrg raised %s" % (sub, hdr(rec), a)))
                elif not close(v, a):
                    out.append(_mm(sub, "%s %s [%s]: scalar %r, average of the profile %r" % (sub, hdr(rec), form, v, a), float(v), float(a)))
            continue
        for form in forms:
            st, v = call(invoke, rec, sts, form, sg)
            n += 1
            sub = "%s[%s,s=%g,%s]" % (API[fn], be, sg, form)
            if st != "ok":
                out.append(_mm(sub, "%s %s raised %s" % (sub, hdr(rec), v)))
                continue
            prec = dict(rec)
            prec["call"] = dict(rec["call"], fn=PROFILE_OF[fn], iv=0)
            st, p = call(invoke, prec, sts, form, sg)
            if st != "ok":
                out.append(_mm(sub, "%s %s: profile raised %s" % (sub, hdr(rec), p)))
                continue
            iv = kwargs_of(rec, sg).get("interval")
            st, a = call(lambda: p.avrg(iv) if iv is not None else p.avrg())
            if st != "ok":
                out.append(_mm(sub, "%s %s: profile.avrg(%s) raised %s" % (sub, hdr(rec), iv, a)))
                continue
            if not close(v, a):
                out.append(_mm(sub, "%s %s: scalar %r, average of the profile %r" % (sub, hdr(rec), v, a), float(v), float(a)))
            # the convention: SPIKE-Sync of an interval without spikes is 1
            if fn == "sync":
                lo, hi = iv if iv is not None else (None, None)
                sel = [rec["tr"][k - 1] for k in rec["call"]["idx"]]
                inside = [t for s in sel for t in s if iv is None or (lo < t * sg < hi)]
                if not inside and not close(v, 1.0):
                    out.append(_mm(sub, "%s %s: no spike inside the averaging interval but SPIKE-Sync = %r (1 by convention)" % (
                        sub, hdr(rec), v), float(v), 1.0))
    return n, out


# --------------------------------------------------------------------------- filter relations (C17)
@checker("filter_rel")
def chk_filter_rel(rec, be):
    """kept + removed partition every train in order on the original interval; a higher threshold never
    keeps more; kept iff the multivariate profile value at that spike is above the threshold"""
    out = []
    n = 0
    sts = trains_of(rec)
    snap = snapshot(sts)
    kw = kwargs_of(rec)
    N = len(sts)
    sub = "filter_by_spike_sync[%s]" % be
    prev = None
    st, prof = call(lambda: pyspike.spike_sync_profile(sts, **kw))
    if st != "ok":
        return 1, [_mm(sub, "%s %s: spike_sync_profile raised %s" % (sub, hdr(rec), prof))]
    for th in (0.0, 0.25, 1.0 / 3, 0.5, 2.0 / 3, 0.75, 1.0):
        st, r = call(lambda: pyspike.filter_by_spike_sync(sts, th, return_removed_spikes=True, **kw))
        n += 1
        if st != "ok":
            out.append(_mm(sub, "%s %s thr=%g raised %s" % (sub, hdr(rec), th, r)))
            break
        kept, rem = r
        st2, only = call(lambda: pyspike.filter_by_spike_sync(sts, th, **kw))
        if st2 == "ok" and any(list(u.spikes) != list(v.spikes) for u, v in zip(only, kept)):
            out.append(_mm(sub, "%s %s thr=%g: result differs with / without return_removed_spikes" % (sub, hdr(rec), th)))
        for k in range(N):
            a = sorted(list(kept[k].spikes) + list(rem[k].spikes))
            if a != list(sts[k].spikes) or list(kept[k].spikes) != sorted(kept[k].spikes) or \
                    kept[k].t_start != sts[k].t_start or kept[k].t_end != sts[k].t_end or \
                    rem[k].t_start != sts[k].t_start or rem[k].t_end != sts[k].t_end:
                out.append(_mm(sub, "%s %s thr=%g: kept %s + removed %s is not a partition of train %d on its interval" % (
                    sub, hdr(rec), th, fl(kept[k].spikes), fl(rem[k].spikes), k)))
            # kept iff profile value (at spike times not shared with another train) > threshold
            for t in sts[k].spikes:
                if any(t in sts[j].spikes for j in range(N) if j != k):
                    continue
                i = [m for m in range(1, len(prof.x) - 1) if prof.x[m] == t]
                if len(i) != 1:
                    continue
                val = prof.y[i[0]] / prof.mp[i[0]]
                is_kept = t in kept[k].spikes
                if abs(val - th) > 1e-9 and is_kept != (val > th):
                    out.append(_mm(sub, "%s %s thr=%g: spike %g of train %d has profile value %g but kept=%s" % (
                        sub, hdr(rec), th, t, k, val, is_kept)))
        if prev is not None:
            for k in range(N):
                if not set(kept[k].spikes) <= set(prev[k].spikes):
                    out.append(_mm(sub, "%s %s: raising the threshold to %g keeps more spikes of train %d" % (sub, hdr(rec), th, k)))
        prev = kept
    if not unchanged(sts, snap):
        out.append(_mm(sub, "%s %s: the filter modified its input trains" % (sub, hdr(rec))))
        return n, out

    def same_trains(u, v):
        return len(u) == len(v) and all(list(x.spikes) == list(y.spikes) and x.t_start == y.t_start and x.t_end == y.t_end
                                        for x, y in zip(u, v))
    # MRTS='auto' is one threshold for the whole list (the one the multivariate profile uses)
    kwa = dict(kw, MRTS="auto")
    sta, pa = call(lambda: pyspike.spike_sync_profile(sts, **kwa))
    stt, thr_auto = call(lambda: pyspike.isi_lengths.default_thresh(sts))
    for th in (0.0, 0.5):
        st, r = call(lambda: pyspike.filter_by_spike_sync(sts, th, **kwa))
        n += 1
        if st != "ok" or sta != "ok" or stt != "ok":
            if st != sta:
                out.append(_mm(sub, "%s %s thr=%g MRTS='auto': filter %s, profile %s" % (sub, hdr(rec), th, r if st != "ok" else "ok", pa if sta != "ok" else "ok")))
            break
        st2, r2 = call(lambda: pyspike.filter_by_spike_sync(sts, th, **dict(kw, MRTS=thr_auto)))
        if st2 != "ok" or not same_trains(r, r2):
            out.append(_mm(sub, "%s %s thr=%g: filter(MRTS='auto') keeps %s, filter(MRTS=default_thresh(list)=%r) keeps %s" % (
                sub, hdr(rec), th, [fl(s.spikes) for s in r], thr_auto, [fl(s.spikes) for s in r2] if st2 == "ok" else r2)))
            break
        for k in range(N):
            for t in sts[k].spikes:
                if any(t in sts[j].spikes for j in range(N) if j != k):
                    continue
                i = [m for m in range(1, len(pa.x) - 1) if pa.x[m] == t]
                if len(i) == 1:
                    val = pa.y[i[0]] / pa.mp[i[0]]
                    if abs(val - th) > 1e-9 and (t in r[k].spikes) != (val > th):
                        out.append(_mm(sub, "%s %s thr=%g MRTS='auto': spike %g of train %d has profile value %g but kept=%s" % (
                            sub, hdr(rec), th, t, k, val, t in r[k].spikes)))
    # recordings of different length: the filter and the profile use the threshold of the reconciled list
    un = unequal_edges(sts)
    su, pu = call(lambda: pyspike.spike_sync_profile(un, **kwa))
    for th in (0.0, 0.5):
        st, r = call(lambda: pyspike.filter_by_spike_sync(un, th, **kwa))
        n += 1
        if st != "ok" or su != "ok":
            if st != su:
                out.append(_mm(sub, "%s %s thr=%g MRTS='auto', recordings of different length: filter %s, profile %s" % (
                    sub, hdr(rec), th, r if st != "ok" else "ok", pu if su != "ok" else "ok")))
            break
        bad_ = False
        for k in range(N):
            for t in un[k].spikes:
                if any(t in un[j].spikes for j in range(N) if j != k):
                    continue
                i = [m for m in range(1, len(pu.x) - 1) if pu.x[m] == t]
                if len(i) == 1:
                    val = pu.y[i[0]] / pu.mp[i[0]]
                    if abs(val - th) > 1e-9 and (t in r[k].spikes) != (val > th):
                        out.append(_mm(sub, "%s %s thr=%g MRTS='auto', recordings %s: spike %g of train %d has profile value %g but kept=%s" % (
                            sub, hdr(rec), th, [(s_.t_start, s_.t_end) for s_ in un], t, k, val, t in r[k].spikes)))
                        bad_ = True
                        break
            if bad_:
                break
    # a list may hold the same object twice: the result depends on the spike times, not on object identity
    if N >= 2:
        for kwx in (dict(kw), dict(kw, Reconcile=False)):
            al = [sts[0]] + list(sts)
            cp = [sts[0].copy()] + list(sts)
            for th in (0.0, 0.25, 0.5):
                a = call(lambda: pyspike.filter_by_spike_sync(al, th, **kwx))
                b = call(lambda: pyspike.filter_by_spike_sync(cp, th, **kwx))
                n += 1
                if a[0] != b[0] or (a[0] == "ok" and not same_trains(a[1], b[1])):
                    out.append(_mm(sub, "%s %s thr=%g %s: the list [t0, t0, t1, ..] with ONE object in both places gives %s, "
                                        "with a copy in the second place %s" % (
                                            sub, hdr(rec), th, "Reconcile=False" if "Reconcile" in kwx else "",
                                            [fl(s.spikes) for s in a[1]] if a[0] == "ok" else a[1],
                                            [fl(s.spikes) for s in b[1]] if b[0] == "ok" else b[1])))
                    break
    if not unchanged(sts, snap):
        out.append(_mm(sub, "%s %s: the filter modified its input trains" % (sub, hdr(rec))))
    return n, out


# --------------------------------------------------------------------------- reconcile (C13)
def messy_train(m, sg=1.0):
    sp = np.array([float(v) * sg for v in m["sp"]], dtype=float)
    return pyspike.SpikeTrain(sp, [m["ts"] * sg, m["te"] * sg], is_sorted=True)     # is_sorted=True: keep the order


def _outcome(f):
    st, r = call(f)
    if st != "ok":
        return ("exc", r.split(":")[0])
    return ("ok", r)


def _norm_any(r):
    """comparable form of any public result"""
    if hasattr(r, "x") and hasattr(r, "y1") or hasattr(r, "mp") or (hasattr(r, "x") and hasattr(r, "y")):
        return ("profile", ptuple(r))
    if isinstance(r, np.ndarray) and r.ndim == 2:
        return ("matrix", np.asarray(r, float))
    if isinstance(r, (list, tuple)) and len(r) > 0 and isinstance(r[0], np.ndarray):
        return ("values", [np.asarray(v, float) for v in r])
    if isinstance(r, (list, tuple)) and len(r) > 0 and isinstance(r[0], pyspike.SpikeTrain):
        return ("filter", [[(np.asarray(s.spikes, float), s.t_start, s.t_end) for s in r]])
    if isinstance(r, (list, tuple)) and len(r) > 0 and isinstance(r[0], list):
        return ("filter", [[(np.asarray(s.spikes, float), s.t_start, s.t_end) for s in part] for part in r])
    return ("scalar", float(r))


def _same_any(p, q, sg):
    """nan == nan here: both sides come from the code, the relation is about equality of behaviour"""
    if p[0] != q[0]:
        return False
    def flat(t):
        if t[0] == "scalar":
            return [np.array([t[1]])]
        if t[0] == "profile":
            return [np.asarray(v, float) for v in t[1][1:]]
        if t[0] == "matrix":
            return [t[1].ravel()]
        if t[0] == "values":
            return list(t[1])
        return [np.concatenate([s[0], [s[1], s[2]]]) for part in t[1] for s in part]
    if p[0] == "profile" and p[1][0] != q[1][0]:
        return False
    fa, fb = flat(p), flat(q)
    if len(fa) != len(fb):
        return False
    for k, (u, v) in enumerate(zip(fa, fb)):
        if u.shape != v.shape:
            return False
        sc = sg if (p[0] in ("profile", "filter") and (k == 0 or p[0] == "filter")) else 1.0
        for x, y in zip(u, v):
            if not (is_finite(x) and is_finite(y)):
                if not ((x != x and y != y) or x == y):
                    return False
            elif not close(x, y, sc):
                return False
    return True


MEASURES = [
    ("isi_profile", lambda L, kw: pyspike.isi_profile(L, **kw), {}),
    ("spike_profile", lambda L, kw: pyspike.spike_profile(L, **kw), {}),
    ("spike_sync_profile", lambda L, kw: pyspike.spike_sync_profile(L, **kw), {}),
    ("spike_train_order_profile", lambda L, kw: pyspike.spike_train_order_profile(L, **kw), {}),
    ("isi_distance", lambda L, kw: pyspike.isi_distance(L, **kw), {}),
    ("spike_distance", lambda L, kw: pyspike.spike_distance(L, **kw), {}),
    ("spike_sync", lambda L, kw: pyspike.spike_sync(L, **kw), {}),
    ("spike_train_order", lambda L, kw: pyspike.spike_train_order(L, **kw), {}),
    ("isi_distance_matrix", lambda L, kw: pyspike.isi_distance_matrix(L, **kw), {}),
    ("spike_distance_matrix", lambda L, kw: pyspike.spike_distance_matrix(L, **kw), {}),
    ("spike_sync_matrix", lambda L, kw: pyspike.spike_sync_matrix(L, **kw), {}),
    ("spike_directionality_matrix", lambda L, kw: pyspike.spike_directionality_matrix(L, normalize=False, **kw), {}),
    ("spike_directionality_values", lambda L, kw: pyspike.spike_directionality_values(L, **kw), {}),
    ("filter_by_spike_sync", lambda L, kw: pyspike.filter_by_spike_sync(L, 0.0, **kw), {}),
]
BI_MEASURES = [
    ("isi_profile(a,b)", lambda a, b, kw: pyspike.isi_profile(a, b, **kw)),
    ("spike_profile(a,b)", lambda a, b, kw: pyspike.spike_profile(a, b, **kw)),
    ("spike_sync_profile(a,b)", lambda a, b, kw: pyspike.spike_sync_profile(a, b, **kw)),
    ("spike_train_order_profile(a,b)", lambda a, b, kw: pyspike.spike_train_order_profile(a, b, **kw)),
    ("isi_distance(a,b)", lambda a, b, kw: pyspike.isi_distance(a, b, **kw)),
    ("spike_distance(a,b)", lambda a, b, kw: pyspike.spike_distance(a, b, **kw)),
    ("spike_sync(a,b)", lambda a, b, kw: pyspike.spike_sync(a, b, **kw)),
    ("spike_train_order(a,b)", lambda a, b, kw: pyspike.spike_train_order(a, b, **kw)),
    ("spike_directionality(a,b)", lambda a, b, kw: pyspike.spike_directionality(a, b, normalize=False, **kw)),
]


@checker("reconcile")
def chk_reconcile(rec, be):
    out = []
    n = 0
    sg = rec.get("_unit", 1.0)
    inp = [messy_train(m, sg) for m in rec["inp"]]
    snap = snapshot(inp)
    hdrs = "inp=%s unit=%g" % ([(m["sp"], m["ts"], m["te"]) for m in rec["inp"]], sg)
    sub = "reconcile_spike_trains[%s]" % be
    exp = [(np.array([float(v) * sg for v in o["sp"]], float), o["ts"] * sg, o["te"] * sg) for o in rec["out"]]
    st, r = call(pyspike.spikes.reconcile_spike_trains, inp)
    n += 1
    if st != "ok":
        return n, [_mm(sub, "%s %s raised %s" % (sub, hdrs, r))]
    got = [(np.asarray(s.spikes, float), s.t_start, s.t_end) for s in r]
    ok = len(got) == len(exp) and all(len(g[0]) == len(e[0]) and np.array_equal(g[0], e[0]) and g[1] == e[1] and g[2] == e[2]
                                      for g, e in zip(got, exp))
    if not ok:
        out.append(_mm(sub, "%s %s: result %s expected %s" % (sub, hdrs, [(fl(g[0]), g[1], g[2]) for g in got],
                                                              [(fl(e[0]), e[1], e[2]) for e in exp])))
        return n, out
    if not unchanged(inp, snap):
        out.append(_mm(sub, "%s %s: reconcile modified its input trains" % (sub, hdrs)))
        return n, out
    # the result is made of new objects: writing to it must not reach the inputs
    for s in r:
        if any(s is i for i in inp):
            out.append(_mm(sub, "%s %s: reconcile returned one of its input objects" % (sub, hdrs)))
        if len(s.spikes):
            s.spikes[0] += 1.0
    if not unchanged(inp, snap):
        out.append(_mm(sub, "%s %s: a returned train shares its array with an input train" % (sub, hdrs)))
        return n, out
    # idempotence
    st, r1 = call(pyspike.spikes.reconcile_spike_trains, inp)
    st, r2 = call(pyspike.spikes.reconcile_spike_trains, r1)
    if st != "ok" or any(not np.array_equal(u.spikes, v.spikes) or u.t_start != v.t_start or u.t_end != v.t_end
                         for u, v in zip(r1, r2)):
        out.append(_mm(sub, "%s %s: reconciling twice changes the result" % (sub, hdrs)))
    if len(inp) == 2:
        st, rb = call(pyspike.spikes.reconcile_spike_trains_bi, inp[0], inp[1])
        if st != "ok" or any(not np.array_equal(u.spikes, v.spikes) or u.t_start != v.t_start or u.t_end != v.t_end
                             for u, v in zip(r1, rb)):
            out.append(_mm(sub, "%s %s: reconcile_spike_trains_bi differs from the list version" % (sub, hdrs)))
    # what reconcile returns are ordinary trains: used later, together with trains that come from ANOTHER
    # reconcile call (another common interval), they behave like fresh trains with the same content
    if len(inp) >= 2:
        wide = [pyspike.SpikeTrain(np.array(s.spikes, float), [s.t_start - 2 * sg, s.t_end + 3 * sg], is_sorted=False) for s in inp]
        sa, ra = call(pyspike.spikes.reconcile_spike_trains, inp)
        sb, rb = call(pyspike.spikes.reconcile_spike_trains, wide)
        if sa == "ok" and sb == "ok":
            u, v = ra[0], rb[-1]
            fu = pyspike.SpikeTrain(np.array(u.spikes, float), [u.t_start, u.t_end])
            fv = pyspike.SpikeTrain(np.array(v.spikes, float), [v.t_start, v.t_end])
            for name, f in BI_MEASURES:
                n += 1
                a = _outcome(lambda: f(u, v, dict()))
                b = _outcome(lambda: f(fu, fv, dict()))
                _cmp_outcomes(out, "%s[%s] on trains returned by two reconcile calls" % (name, be), hdrs, a, b, sg)
    # every measure: messy input == clean input (the spec's normal form) with Reconcile=False; inputs untouched
    clean = [pyspike.SpikeTrain(e[0].copy(), [e[1], e[2]]) for e in exp]
    kws = [dict(), dict(MRTS="auto")] if not rec.get("_unit") else [dict()]
    for kw in kws:
        for name, f, _ in MEASURES:
            n += 1
            a = _outcome(lambda: f(inp, dict(kw)))
            b = _outcome(lambda: f(clean, dict(kw, Reconcile=False)))
            _cmp_outcomes(out, "%s[%s]%s" % (name, be, kw or ""), hdrs, a, b, sg)
            if b[0] == "ok":
                csnap = snapshot(clean)
                _scribble(b[1])
                if not unchanged(clean, csnap):
                    out.append(_mm(name, "%s[%s] %s: the returned object shares an array with an input train "
                                         "(writing to the result changed the input)" % (name, be, hdrs)))
                    return n, out
            if not unchanged(inp, snap):
                out.append(_mm(name, "%s[%s] %s: the call modified its input trains" % (name, be, hdrs)))
                return n, out
        if len(inp) == 2:
            for name, f in BI_MEASURES:
                n += 1
                a = _outcome(lambda: f(inp[0], inp[1], dict(kw)))
                b = _outcome(lambda: f(clean[0], clean[1], dict(kw, Reconcile=False)))
                _cmp_outcomes(out, "%s[%s]%s" % (name, be, kw or ""), hdrs, a, b, sg)
                if not unchanged(inp, snap):
                    out.append(_mm(name, "%s[%s] %s: the call modified its input trains" % (name, be, hdrs)))
                    return n, out
    return n, out


def _scribble(r):
    """write into every array of a returned object (profile, train list, matrix, value list)"""
    try:
        if isinstance(r, (list, tuple)):
            for x in r:
                _scribble(x)
            return
        for name in ("x", "y", "y1", "y2", "mp", "spikes"):
            v = getattr(r, name, None)
            if isinstance(v, np.ndarray) and v.size and v.flags.writeable:
                v += 1.0
        if isinstance(r, np.ndarray) and r.size and r.flags.writeable and r.dtype.kind == "f":
            r += 1.0
    except Exception:
        pass


def _cmp_outcomes(out, sub, hdrs, a, b, sg):
    if a[0] != b[0]:
        out.append(_mm(sub, "%s %s: messy input -> %s %s, normalised input with Reconcile=False -> %s %s" % (
            sub, hdrs, a[0], a[1] if a[0] == "exc" else "", b[0], b[1] if b[0] == "exc" else "")))
        return
    if a[0] == "exc":
        if a[1] != b[1]:
            out.append(_mm(sub, "%s %s: messy input raises %s, normalised input raises %s" % (sub, hdrs, a[1], b[1])))
        return
    pa, pb = _norm_any(a[1]), _norm_any(b[1])
    if not _same_any(pa, pb, sg):
        out.append(_mm(sub, "%s %s: messy input gives %s, normalised input with Reconcile=False gives %s" % (
            sub, hdrs, rstr(pa), rstr(pb))))


# --------------------------------------------------------------------------- well-formedness (C18)
def wf_problem(kind, r, ts, te, N=None, sts=None):
    """None if the result is finite and well formed, else a description"""
    if kind == "profile":
        p = ptuple(r)
        x = p[1]
        if len(x) < 2 or x[0] != ts or x[-1] != te:
            return "time axis %s does not run from t_start=%g to t_end=%g" % (fl(x), ts, te)
        if not all(is_finite(v) for arr_ in p[1:] for v in arr_):
            return "non-finite value in %s" % pstr(p)
        if p[0] in ("pwc", "pwl"):
            if not all(x[k] < x[k + 1] for k in range(len(x) - 1)):
                return "time axis not strictly increasing: %s" % fl(x)
            if any(len(v) != len(x) - 1 for v in p[2:]):
                return "inconsistent array lengths in %s" % pstr(p)
        else:
            if not all(x[k] <= x[k + 1] for k in range(len(x) - 1)):
                return "time axis decreasing: %s" % fl(x)
            if any(len(v) != len(x) for v in p[2:]):
                return "inconsistent array lengths in %s" % pstr(p)
            if not all(m > 0 for m in p[3]):
                return "non-positive multiplicity in %s" % pstr(p)
        return None
    if kind == "scalar":
        return None if is_finite(r) else "result %r is not finite" % (r,)
    if kind == "matrix":
        m = np.asarray(r, float)
        if m.ndim != 2 or m.shape[0] != m.shape[1]:
            return "matrix shape %s" % (m.shape,)
        return None if np.all(np.isfinite(m)) else "non-finite matrix entry %s" % m.tolist()
    if kind == "values":
        for v in r:
            if not np.all(np.isfinite(np.asarray(v, float))):
                return "non-finite directionality value %s" % fl(v)
        return None
    if kind == "filter":
        for part in r:
            for s in part:
                if s.t_start != ts or s.t_end != te or not np.all(np.isfinite(s.spikes)):
                    return "filtered train %s on [%g, %g]" % (fl(s.spikes), s.t_start, s.t_end)
        return None
    return "unknown result kind"


@checker("multi_wf")
def chk_multi_wf(rec, be):
    out = []
    n = 0
    fn = rec["call"]["fn"]
    sts = trains_of(rec)
    ts, te = float(rec["ts"]), float(rec["te"])
    ident = rec["call"]["idx"] == list(range(1, len(rec["tr"]) + 1))
    modes = [None] + (["auto"] if fr(rec["mrts"]) == 0 else [])
    for mode in modes:
        for form in forms_for(rec):
            if form in ("idx_np", "idx_tuple") or (mode == "auto" and form not in ("idx", "sub")):
                continue
            if mode is None:
                st, r = call(invoke, rec, sts, form)
            else:
                st, r = call(invoke_mrts, rec, sts, form, 1.0, "auto")
            n += 1
            sub = "%s[%s,%s%s]" % (API[fn], be, form, ",MRTS='auto'" if mode else "")
            if st != "ok":
                out.append(_mm(sub, "%s %s raised %s" % (sub, hdr(rec), r)))
                continue
            kind = norm_result(rec, r)[0]
            pb = wf_problem(kind, r, ts, te)
            if pb:
                out.append(_mm(sub, "%s %s: %s" % (sub, hdr(rec), pb)))
    # keywords arrive in many numeric types: an interval written with ints / numpy ints, a numpy-int max_tau ...
    # give what the float spelling gives
    kw0 = kwargs_of(rec)
    typed = {}
    if kw0.get("interval") is not None and all(float(v) == int(v) for v in kw0["interval"]):
        typed["interval"] = [(int(kw0["interval"][0]), int(kw0["interval"][1])),
                             (np.int64(kw0["interval"][0]), np.int64(kw0["interval"][1]))]
    if kw0.get("max_tau") is not None and float(kw0["max_tau"]) == int(kw0["max_tau"]):
        typed["max_tau"] = [int(kw0["max_tau"]), np.int64(kw0["max_tau"]), np.float32(kw0["max_tau"])]
    if kw0.get("MRTS") and float(kw0["MRTS"]) == int(kw0["MRTS"]):
        typed["MRTS"] = [int(kw0["MRTS"]), np.float32(kw0["MRTS"])]
    if typed and fn != "filter":
        f_ = getattr(pyspike, API[fn])
        idx_ = [k - 1 for k in rec["call"]["idx"]]
        s0, r0 = call(lambda: f_(sts, indices=list(idx_), **kw0))
        for key, vals in typed.items():
            for v in vals:
                kw1 = dict(kw0)
                kw1[key] = v
                s1, r1 = call(lambda: f_(sts, indices=list(idx_), **kw1))
                n += 1
                sub = "%s[%s,%s=%r (%s)]" % (API[fn], be, key, v, type(v[0] if isinstance(v, tuple) else v).__name__)
                if s1 != s0 or (s1 == "ok" and not equal_results(norm_result(rec, r0), norm_result(rec, r1))):
                    out.append(_mm(sub, "%s %s: the call gives %s, with the same number(s) written as floats %s" % (
                        sub, hdr(rec), rstr(norm_result(rec, r1)) if s1 == "ok" else r1, rstr(norm_result(rec, r0)) if s0 == "ok" else r0)))
    # the histogram is a profile too: its time axis runs from t_start to t_end whatever the bin size
    if fn == "isi_profile" and ident:
        for bs in (1.0, 1.5, (te - ts) / 3.0, 3.0, te - ts):
            st, r = call(lambda: pyspike.psth(sts, bs))
            n += 1
            sub = "psth[%s,bin=%g]" % (be, bs)
            if st != "ok":
                out.append(_mm(sub, "%s %s raised %s" % (sub, hdr(rec), r)))
                continue
            pb = wf_problem("profile", r, ts, te)
            if pb:
                out.append(_mm(sub, "%s %s: %s" % (sub, hdr(rec), pb)))
    # spikes within rounding of an edge (as produced by np.cumsum / np.arange: 0.9999999999999999 for an end of 1.0)
    # are inside the recording like any other: first train's last spike one ulp before t_end, second train's
    # first spike one ulp after t_start
    hug = []
    for k, s_ in enumerate(sts):
        sp = np.array(s_.spikes, float)
        if k == 0 and len(sp) and sp[-1] < te:
            sp[-1] = np.nextafter(te, ts)
        if k == 1 and len(sp) and sp[0] > ts and (len(sp) == 1 or sp[1] > np.nextafter(ts, te)):
            sp[0] = np.nextafter(ts, te)
        hug.append(pyspike.SpikeTrain(sp, [ts, te]))
    if any(not np.array_equal(h_.spikes, s_.spikes) for h_, s_ in zip(hug, sts)):
        for form in [f for f in forms_for(rec) if f in ("idx", "sub", "bi")]:
            st, r = call(invoke, rec, hug, form)
            n += 1
            sub = "%s[%s,%s,spikes one ulp inside the edges]" % (API[fn], be, form)
            htxt = "trains=%s on [%g,%g] %s" % ([[repr(float(v)) for v in h_.spikes] for h_ in hug], ts, te, hdr(rec))
            if st != "ok":
                out.append(_mm(sub, "%s %s raised %s" % (sub, htxt, r)))
                continue
            pb = wf_problem(norm_result(rec, r)[0], r, ts, te)
            if pb:
                out.append(_mm(sub, "%s %s: %s" % (sub, htxt, pb)))
    # the bivariate-only entry points on every ordered pair of the list (once per list: on the first profile call)
    if fn == "isi_profile" and ident:
        kw = kwargs_of(dict(rec, call=dict(rec["call"], fn="dir_matrix", norm=True)))
        kw.pop("normalize", None)
        for i in range(len(sts)):
            for j in range(len(sts)):
                if i == j:
                    continue
                for nm in (True, False):
                    st, r = call(lambda: pyspike.spike_directionality(sts[i], sts[j], normalize=nm, **kw))
                    n += 1
                    sub = "spike_directionality[%s,normalize=%s]" % (be, nm)
                    if st != "ok":
                        out.append(_mm(sub, "%s trains=%s,%s raised %s" % (sub, rec["tr"][i], rec["tr"][j], r)))
                    elif not is_finite(r):
                        out.append(_mm(sub, "%s trains=%s,%s [%g,%g]: result %r is not finite" % (
                            sub, rec["tr"][i], rec["tr"][j], ts, te, r)))
                    st, r = call(lambda: pyspike.spike_train_order(sts[i], sts[j], normalize=nm, **kw))
                    n += 1
                    sub = "spike_train_order[%s,normalize=%s]" % (be, nm)
                    if st != "ok":
                        out.append(_mm(sub, "%s trains=%s,%s raised %s" % (sub, rec["tr"][i], rec["tr"][j], r)))
                    elif not is_finite(r):
                        out.append(_mm(sub, "%s trains=%s,%s [%g,%g]: result %r is not finite" % (
                            sub, rec["tr"][i], rec["tr"][j], ts, te, r)))
    return n, out


# --------------------------------------------------------------------------- directionality relations (C04, multivariate)
@checker("dir_rel")
def chk_dir_rel(rec, be):
    """on the code: matrix antisymmetric with zero diagonal; synfire indicator from the un-normalised
    matrix; values = per-spike sums over the other selected trains / (N-1); swapping negates"""
    out = []
    n = 0
    sts = trains_of(rec)
    idx = [k - 1 for k in rec["call"]["idx"]]
    sel = [sts[k] for k in idx]
    N = len(sel)
    kw = {"MRTS": float(fr(rec["mrts"]))}
    mt = float(fr(rec["mtau"]))
    kw["max_tau"] = mt if mt > 0 else None
    sub = "directionality[%s]" % be
    h = hdr(rec)
    st, D = call(lambda: pyspike.spike_directionality_matrix(sts, normalize=False, indices=idx, **kw))
    n += 1
    if st != "ok":
        return n, [_mm(sub, "%s %s: spike_directionality_matrix raised %s" % (sub, h, D))]
    D = np.asarray(D, float)
    if D.shape != (N, N) or not np.allclose(D, -D.T, atol=1e-12) or not np.allclose(np.diag(D), 0.0):
        out.append(_mm(sub, "%s %s: matrix %s is not antisymmetric with zero diagonal" % (sub, h, D.tolist())))
    for p in range(N):
        for q in range(p + 1, N):
            st, d = call(lambda: pyspike.spike_directionality(sel[p], sel[q], normalize=False, **kw))
            st2, d2 = call(lambda: pyspike.spike_directionality(sel[q], sel[p], normalize=False, **kw))
            n += 1
            if st != "ok" or st2 != "ok":
                out.append(_mm(sub, "%s %s: spike_directionality raised %s %s" % (sub, h, d, d2)))
            elif not (close(D[p][q], d) and close(d2, -d)):
                out.append(_mm(sub, "%s %s: D[%d][%d]=%r, directionality(p,q)=%r, directionality(q,p)=%r" % (sub, h, p, q, D[p][q], d, d2)))
    nsp = sum(len(s.spikes) for s in sel)
    if N > 2 and nsp > 0:
        st, F = call(lambda: pyspike.spike_train_order(sts, indices=idx, **kw))
        n += 1
        e = 2.0 * float(np.sum(np.triu(D, 1))) / ((N - 1) * nsp)
        if st != "ok":
            out.append(_mm(sub, "%s %s: spike_train_order raised %s" % (sub, h, F)))
        elif not close(F, e):
            out.append(_mm(sub, "%s %s: synfire indicator %r, from the matrix 2*sum(upper)/((N-1)*spikes) = %r" % (sub, h, F, e)))
    st, V = call(lambda: pyspike.spike_directionality_values(sts, indices=idx, **kw))
    n += 1
    if st != "ok":
        out.append(_mm(sub, "%s %s: spike_directionality_values raised %s" % (sub, h, V)))
    else:
        for p in range(N):
            if not close(float(np.sum(V[p])) * (N - 1), float(np.sum(D[p]))):
                out.append(_mm(sub, "%s %s: values of train %d sum to %r*(N-1), matrix row sums to %r" % (
                    sub, h, p, float(np.sum(V[p])), float(np.sum(D[p])))))
                break
            if np.any(np.abs(V[p]) > 1 + 1e-12):
                out.append(_mm(sub, "%s %s: directionality value outside [-1,1]: %s" % (sub, h, fl(V[p]))))
    return n, out


# --------------------------------------------------------------------------- MRTS on lists (C15, multivariate)
@checker("multi_auto")
def chk_multi_auto(rec, be):
    import math
    out = []
    n = 0
    fn = rec["call"]["fn"]
    h = hdr(rec)
    for sg in (1.0, 2.0 ** -10):
        sts = trains_of(rec, sg)
        sub = "%s[%s,s=%g]" % (API[fn], be, sg)
        st, th = call(lambda: pyspike.isi_lengths.default_thresh(sts))
        n += 1
        e = math.sqrt(float(fr(rec["autosq"]))) * sg
        if st != "ok":
            out.append(_mm(sub, "%s %s: default_thresh raised %s" % (sub, h, th)))
            continue
        if not close(th, e, sg):
            out.append(_mm(sub, "%s %s: default_thresh = %r expected sqrt(%s)*s = %r" % (sub, h, th, fr(rec["autosq"]), e)))
            continue
        # 'auto' is resolved from the whole (reconciled) list that is handed over, then used for every pair
        ra = dict(rec, mrts=[0, 1])
        for form in [f for f in forms_for(rec) if f in ("idx", "sub")]:
            if form == "sub" and len(rec["call"]["idx"]) != len(sts):
                # the sub-list form pools only the selected trains: compare with its own pool
                sub_sts = [sts[k - 1] for k in rec["call"]["idx"]]
                st, th2 = call(lambda: pyspike.isi_lengths.default_thresh(sub_sts))
            else:
                th2 = th

            def run(m):
                r2 = dict(ra)
                st_, r_ = call(invoke_mrts, r2, sts, form, sg, m)
                return st_, r_
            sa, a = run("auto")
            sb, b = run(float(th2))
            n += 1
            if sa != "ok" or sb != "ok":
                out.append(_mm(sub, "%s %s [%s]: MRTS='auto' -> %s, explicit -> %s" % (sub, h, form, a if sa != "ok" else "ok", b if sb != "ok" else "ok")))
            elif not equal_results(norm_result(rec, a), norm_result(rec, b), sg):
                out.append(_mm(sub, "%s %s [%s]: MRTS='auto' gives %s, MRTS=%r gives %s" % (
                    sub, h, form, rstr(norm_result(rec, a)), float(th2), rstr(norm_result(rec, b)))))
        # recordings of different length: 'auto' is the threshold of the RECONCILED list (common interval)
        if sg == 1.0 and fn != "filter":
            un = unequal_edges(sts)
            for form in [f for f in forms_for(rec) if f in ("idx", "sub", "bi")]:
                idx0 = [k - 1 for k in rec["call"]["idx"]]
                pool = un if form == "idx" else [un[k] for k in idx0]
                st, rl = call(lambda: pyspike.spikes.reconcile_spike_trains(pool))
                st2, th3 = call(lambda: pyspike.isi_lengths.default_thresh(rl)) if st == "ok" else ("exc", None)
                if st != "ok" or st2 != "ok":
                    continue
                sa, a = call(invoke_mrts, ra, un, form, 1.0, "auto")
                if form == "idx":
                    sb, b = call(invoke_mrts, ra, rl, "idx", 1.0, float(th3))
                else:
                    r2 = dict(ra, call=dict(ra["call"], idx=list(range(1, len(rl) + 1))))
                    sb, b = call(invoke_mrts, r2, rl, form, 1.0, float(th3))
                n += 1
                if sa != "ok" or sb != "ok":
                    if sa != sb:
                        out.append(_mm(sub, "%s %s [%s, recordings of different length]: MRTS='auto' -> %s, explicit on the reconciled list -> %s" % (
                            sub, h, form, a if sa != "ok" else "ok", b if sb != "ok" else "ok")))
                elif not equal_results(norm_result(rec, a), norm_result(rec, b), 1.0):
                    out.append(_mm(sub, "%s %s [%s, recordings of different length %s]: MRTS='auto' gives %s, MRTS=%r (threshold of the "
                                        "reconciled list) on the reconciled list gives %s" % (
                                            sub, h, form, [(s_.t_start, s_.t_end) for s_ in un], rstr(norm_result(rec, a)), float(th3),
                                            rstr(norm_result(rec, b)))))
        # monotone in MRTS for the multivariate forms
        if fn in ("isi_distance", "spike_distance", "sync", "isi_profile", "spike_profile", "isi_matrix", "spike_matrix", "sync_matrix"):
            prev = None
            for m in (0.0, 0.5 * sg, 1.5 * sg, 4.0 * sg, 30.0 * sg):
                st, r = call(invoke_mrts, ra, sts, "idx", sg, m)
                n += 1
                if st != "ok":
                    out.append(_mm(sub, "%s %s MRTS=%g raised %s" % (sub, h, m, r)))
                    break
                cur = norm_result(rec, r)
                if prev is not None:
                    pv = np.concatenate([np.ravel(v) for v in (cur[1][2:] if cur[0] == "profile" else [np.asarray(cur[1], float)])])
                    pp = np.concatenate([np.ravel(v) for v in (prev[1][2:] if prev[0] == "profile" else [np.asarray(prev[1], float)])])
                    if len(pv) == len(pp):
                        inc = np.any(pv > pp + 1e-9) if fn not in ("sync", "sync_matrix") else np.any(pv < pp - 1e-9)
                        if inc:
                            out.append(_mm(sub, "%s %s: not monotone in MRTS at %g: %s -> %s" % (sub, h, m, rstr(prev), rstr(cur))))
                            break
                prev = cur
    return n, out


def invoke_mrts(rec, sts, form, sg, m):
    cl = rec["call"]
    f = getattr(pyspike, API[cl["fn"]])
    kw = kwargs_of(rec, sg)
    kw["MRTS"] = m
    idx = [k - 1 for k in cl["idx"]]
    if cl["fn"] == "filter":
        th = (cl["thr"] // 100) / float(cl["thr"] % 100)
        return f(sts, th, return_removed_spikes=True, **kw)
    if form == "idx":
        return f(sts, indices=list(idx), **kw)
    if form == "bi":
        return f(sts[idx[0]], sts[idx[1]], **kw)
    return f([sts[k] for k in idx], **kw)


def unequal_edges(sts, unit=1.0):
    """the same spikes on recordings of different length (train k ends 2k+1 units later; train 0 is the shortest):
    the common interval of the list is then the longest one, and a threshold computed from unreconciled trains
    (or from the first train's own edges) differs from the threshold of the reconciled list"""
    return [pyspike.SpikeTrain(np.array(s.spikes, float), [s.t_start, s.t_end + ((2 * k + 1) * unit if k else 0.0)])
            for k, s in enumerate(sts)]


# --------------------------------------------------------------------------- time-axis transformations of lists (C08, multivariate)
@checker("multi_transform")
def chk_multi_transform(rec, be):
    from checkers_rel import _tr, _tr_profile
    out = []
    n = 0
    fn = rec["call"]["fn"]
    ts, te = rec["ts"], rec["te"]
    h = hdr(rec)
    sts = trains_of(rec)
    st, r0 = call(invoke, rec, sts, "idx")
    n += 1
    sub = "%s[%s]" % (API[fn], be)
    if st != "ok":
        return n, [_mm(sub, "%s %s raised %s" % (sub, h, r0))]
    base = norm_result(rec, r0)
    for kind, par in (("shift", 3.0), ("shift", -2.5), ("scale", 3.0), ("scale", 0.25), ("mirror", None)):
        f = par if kind == "scale" else 1.0
        tsts = []
        for s in rec["tr"]:
            a2, ts2, te2 = _tr(s, ts, te, kind, par)
            tsts.append(pyspike.SpikeTrain(np.array(a2, dtype=float), [ts2, te2]))
        r2 = dict(rec, mrts=[fr(rec["mrts"]).numerator, fr(rec["mrts"]).denominator])
        cl = rec["call"]
        kw = kwargs_of(rec)
        kw["MRTS"] = kw["MRTS"] * f
        if kw.get("max_tau"):
            kw["max_tau"] = kw["max_tau"] * f
        if "interval" in kw:
            a, b = kw["interval"]
            if kind == "shift":
                kw["interval"] = (a + par, b + par)
            elif kind == "scale":
                kw["interval"] = (a * par, b * par)
            else:
                kw["interval"] = (ts + te - b, ts + te - a)
        fobj = getattr(pyspike, API[fn])
        idx = [k - 1 for k in cl["idx"]]
        st, r = call(lambda: fobj(tsts, indices=idx, **kw))
        n += 1
        tag = "%s(%s)" % (kind, par)
        if st != "ok":
            out.append(_mm(sub, "%s %s %s raised %s" % (sub, h, tag, r)))
            continue
        got = norm_result(rec, r)
        exp = base
        if base[0] == "profile":
            exp = ("profile", _tr_profile(base[1], ts, te, kind, par))
            if fn == "order_profile" and kind == "mirror":
                ok = same_arrays(got[1][1], exp[1][1], 1.0) and same_arrays(got[1][3], exp[1][3]) and \
                    same_arrays(got[1][2][1:-1], -exp[1][2][1:-1])
                if not ok:
                    out.append(_mm(sub, "%s %s %s: got %s expected mirrored and negated %s" % (sub, h, tag, rstr(got), rstr(exp))))
                continue
        elif kind == "mirror" and fn in ("order", "dir_matrix"):
            exp = (base[0], -np.asarray(base[1], float)) if base[0] == "matrix" else ("scalar", -base[1])
            if fn == "order" and sum(len(s) for s in rec["tr"]) == 0:
                exp = base
        elif kind == "mirror" and fn == "dir_values":
            exp = ("values", [-v[::-1] for v in base[1]])
        if not equal_results(exp, got, max(1.0, abs(f))):
            out.append(_mm(sub, "%s %s %s: got %s expected %s" % (sub, h, tag, rstr(got), rstr(exp))))
    return n, out

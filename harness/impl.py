"""Driver for the implementation under test: imports pyspike from the working tree of /repo,
switches between the pure-Python fallback ('py') and the shimmed .pyx kernels ('shim')."""
import os
import sys
import warnings

import numpy as np

from common import REPO, MachineryError

os.environ.setdefault("PYSPIKE_VERIF", "1")
if REPO not in sys.path:
    sys.path.insert(0, REPO)
warnings.simplefilter("ignore")
import pyspike                                              # noqa: E402
from pyspike.cython import python_backend as PB             # noqa: E402
from pyspike.cython import directionality_python_backend as DPB   # noqa: E402
import pyxshim                                              # noqa: E402

if not os.path.realpath(pyspike.__file__).startswith(os.path.realpath(REPO)):
    raise MachineryError("pyspike imported from %s, not from %s" % (pyspike.__file__, REPO))
pyspike.disable_backend_warning = True
np.seterr(all="ignore")

_backend = "py"
_mods = None
BACKENDS = ("py", "shim")


def set_backend(b):
    """'py': kernels not importable (pure-Python fallback); 'shim': transliterated .pyx kernels"""
    global _backend, _mods
    if b == "shim":
        try:
            _mods = pyxshim.install(REPO)
        except pyxshim.ShimError as e:
            raise MachineryError("pyx shim: %s" % e)
    elif b == "py":
        pyxshim.uninstall()
        _mods = None
    else:
        raise MachineryError("unknown backend %r" % b)
    _backend = b


def backend():
    return _backend


def shim(mod, name):
    if _mods is None:
        raise MachineryError("shim backend not installed")
    m = _mods["pyspike.cython." + mod]
    if not hasattr(m, name):
        raise MachineryError("kernel %s.%s does not exist" % (mod, name))
    return getattr(m, name)


def arr(xs, sigma=1.0, shift=0.0):
    return np.array([float(x) for x in xs], dtype=float) * sigma + shift


def train(spikes, ts, te, sigma=1.0, shift=0.0):
    return pyspike.SpikeTrain(arr(spikes, sigma, shift), [ts * sigma + shift, te * sigma + shift])


def nonempty(spikes, ts, te, sigma=1.0, shift=0.0):
    if len(spikes) == 0:
        return arr([ts, te], sigma, shift)
    return arr(spikes, sigma, shift)


def call(f, *a, **k):
    """run f, return ('ok', result) or ('exc', 'ClassName: msg')"""
    try:
        with warnings.catch_warnings():
            warnings.simplefilter("ignore")
            return ("ok", f(*a, **k))
    except pyxshim.COutOfBounds as e:
        return ("exc", "COutOfBounds: %s" % e)
    except MachineryError:
        raise
    except Exception as e:          # noqa
        return ("exc", "%s: %s" % (type(e).__name__, e))

"""Check context: collects coverage counters, violations and known findings, writes the
evidence file and replay files, prints the verdict lines."""
import json
import os
import sys
import time

from common import EVID, REPLAYS, VERIF, MachineryError, jdump
import known


class Ctx(object):
    def __init__(self, prop, tier, seed):
        self.prop = prop
        self.tier = tier
        self.seed = seed
        self.t0 = time.time()
        self.states = 0
        self.transitions = 0
        self.traces = 0            # behaviours replayed into / traces validated against the code
        self.evaluations = 0       # individual comparisons of observed vs expected
        self.nontrivial = set()    # distinct branch paths / case signatures
        self.samples = []
        self.violations = []
        self.known_hits = {}
        self.assumptions = []
        self.tlc_runs = []
        self.notes = {}
        self.exhaustive = True
        self.actions = {}
        self.max_violations = 5
        self.replay_mode = False

    # ---------------- TLC bookkeeping
    def add_tlc(self, res, what, exhaustive=True):
        self.states += res.distinct
        self.transitions += res.generated
        self.tlc_runs.append({"module": res.module, "constants": res.constants, "what": what,
                              "distinct_states": res.distinct, "states_generated": res.generated,
                              "depth": res.depth, "wall_s": round(res.wall, 2),
                              "exports": len(res.exports), "exhaustive": exhaustive})
        if not exhaustive:
            self.exhaustive = False
        for k, v in res.coverage.items():
            self.actions[k] = self.actions.get(k, 0) + v
        if res.violated:
            self.violation("spec-invariant", {"module": res.module, "constants": res.constants,
                                              "invariant": res.violated},
                           "TLC: %s violated in %s" % (res.violated, res.module),
                           extra={"tlc_error": res.error_trace})

    def sample(self, s, limit=4):
        if len(self.samples) < limit:
            self.samples.append(s)

    def count_path(self, sig):
        self.nontrivial.add(sig)

    def count_actions(self, names, prefix=""):
        for a in names:
            k = prefix + a
            self.actions[k] = self.actions.get(k, 0) + 1

    def require_actions(self, names, prefix=""):
        """vacuity guard: every listed spec action must have been exercised by an exported behaviour"""
        from common import MachineryError
        missing = [prefix + a for a in names if self.actions.get(prefix + a, 0) == 0]
        if missing:
            raise MachineryError("vacuous run: specification actions never taken: %s" % missing)

    # ---------------- verdicts
    def mismatch(self, checker, record, text, observed=None, expected=None):
        """a disagreement between code and spec: known finding or violation"""
        kf = known.classify(self.prop, checker, record, text)
        if kf is not None:
            if kf["id"] not in self.known_hits:
                self.known_hits[kf["id"]] = {"count": 0, "first": record, "text": kf["text"]}
            self.known_hits[kf["id"]]["count"] += 1
            return
        self.violation(checker, record, text, observed, expected)

    def violation(self, checker, record, text, observed=None, expected=None, extra=None):
        self.violations.append(text)
        if len(self.violations) > self.max_violations and not self.replay_mode:
            return
        os.makedirs(REPLAYS, exist_ok=True)
        path = os.path.join(REPLAYS, "%s_%d.json" % (self.prop, len(self.violations)))
        doc = {"property": self.prop, "checker": checker, "record": record, "text": text,
               "observed": observed, "expected": expected}
        if extra:
            doc.update(extra)
        if not self.replay_mode:
            with open(path, "w") as f:
                f.write(jdump(doc))
        else:
            path = self.replay_path
        print("VIOLATION property=%s replay=%s" % (self.prop, path))
        print("  " + text[:1000])
        sys.stdout.flush()

    @property
    def too_many(self):
        return len(self.violations) > 50

    def finish(self, level="model_checking", rule="", write=True):
        wall = time.time() - self.t0
        for fid, h in sorted(self.known_hits.items()):
            print("KNOWN-FINDING: property=%s %s: %s (%d cases, e.g. %s)" % (
                self.prop, fid, h["text"], h["count"], jdump(h["first"])[:300]))
        cov = {
            "states": max(self.states, 0),
            "transitions": max(self.transitions, 0),
            "traces_validated_against_impl": self.traces,
            "samples": self.samples or [],
            "evaluations": self.evaluations,
            "distinct_nontrivial": len(self.nontrivial),
            "rule": rule,
            "exhaustive": bool(self.exhaustive),
            "tlc_runs": self.tlc_runs,
            "actions_covered": self.actions,
            "known_findings": {k: v["count"] for k, v in self.known_hits.items()},
        }
        cov.update(self.notes)
        doc = {"property_id": self.prop, "tier": self.tier, "seed": self.seed, "level": level,
               "coverage": cov, "assumptions": self.assumptions, "wall_s": round(wall, 2),
               "violations": len(self.violations)}
        if write:
            evid = EVID if not self.prop.startswith("X") else os.path.join(EVID, "extensions")
            os.makedirs(evid, exist_ok=True)
            with open(os.path.join(evid, "%s.json" % self.prop), "w") as f:
                f.write(json.dumps(json.loads(jdump(doc)), indent=1, sort_keys=True))
        if self.violations:
            print("%s: %d violation(s) in %.1fs" % (self.prop, len(self.violations), wall))
            return 1
        if self.notes.get("vacuous_keywords"):
            # a run that passes keywords which cannot matter proves less than it claims: machinery failure
            print("MACHINERY FAILURE: vacuous keyword settings: %s" % "; ".join(self.notes["vacuous_keywords"]))
            return 2
        print("%s: ok  states=%d traces=%d evaluations=%d distinct_paths=%d wall=%.1fs" % (
            self.prop, self.states, self.traces, self.evaluations, len(self.nontrivial), wall))
        return 0

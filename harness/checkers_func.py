"""Checkers of engine B: function-object heaps (C09, C11) and queries (C10, C11)."""
import numpy as np

import impl
from impl import PB, pyspike, call, shim
from common import fr, frl, close, fl, is_finite
from replay import checker


def _mm(sub, text, observed=None, expected=None):
    return {"sub": sub, "text": text, "observed": observed, "expected": expected}


FRAMES = ((1.0, 0.0), (1.0, 2.0 ** 30), (2.0 ** -50, 0.0))   # 2^-50: neighbouring grid times are closer than any absolute tolerance down to 1e-15


def mk(kind, o, sg=1.0, sh=0.0, int_x=False):
    if len(o["x"]) == 0:
        return None
    x = np.array([float(v) * sg + sh for v in o["x"]], dtype=float)
    if int_x:
        x = [int(v) for v in o["x"]]          # breakpoints given as Python ints
    y1 = np.array([float(fr(v)) for v in o["y1"]], dtype=float)
    y2 = np.array([float(fr(v)) for v in o["y2"]], dtype=float)
    if kind == "pwc":
        return pyspike.PieceWiseConstFunc(x, y1)
    if kind == "pwl":
        return pyspike.PieceWiseLinFunc(x, y1, y2)
    return pyspike.DiscreteFunc(x, y1, y2)


def arrays(kind, f):
    if f is None:
        return None
    if kind == "pwc":
        return (np.array(f.x, float), np.array(f.y, float))
    if kind == "pwl":
        return (np.array(f.x, float), np.array(f.y1, float), np.array(f.y2, float))
    return (np.array(f.x, float), np.array(f.y, float), np.array(f.mp, float))


def expected(kind, o, sg=1.0, sh=0.0):
    if len(o["x"]) == 0:
        return None
    x = [float(v) * sg + sh for v in o["x"]]
    y1 = [float(fr(v)) for v in o["y1"]]
    y2 = [float(fr(v)) for v in o["y2"]]
    if kind == "pwc":
        return (x, y1)
    return (x, y1, y2)


def same(got, exp, sg=1.0, disc=False):
    if got is None or exp is None:
        return got is None and exp is None
    if len(got) != len(exp):
        return False
    for k, (g, e) in enumerate(zip(got, exp)):
        if len(g) != len(e):
            return False
        if disc and k > 0 and len(g) >= 2:
            g, e = g[1:-1], e[1:-1]        # the two edge entries never count
        sc = sg if k == 0 else 1.0
        if not all(close(u, v, sc) for u, v in zip(g, e)):
            return False
    return True


def show(t):
    return None if t is None else [fl(v) for v in t]


def identical(s, t):
    if s is None or t is None:
        return s is None and t is None
    return len(s) == len(t) and all(u.shape == v.shape and np.array_equal(u, v) for u, v in zip(s, t))


def apply_op(heap, op, kind):
    f = op["f"]
    d = op["d"] - 1
    if f == "add":
        heap[d].add(heap[op["s"] - 1])
    elif f == "mul":
        heap[d].mul_scalar(float(fr(op["c"])))
    elif f == "copy":
        heap[d] = heap[op["s"] - 1].copy()
    elif f == "avg":
        from pyspike.DiscreteFunc import average_profile
        heap[d] = average_profile([heap[i - 1] for i in op["ss"]])
    else:
        raise ValueError(f)


@checker("heap")
def chk_heap(rec, be):
    """one transition of FuncObjects: pre-heap, operation, post-heap; whole heap compared, then
    an independence probe through the public API (no object may change when another is scaled)"""
    kind = rec["kind"]
    out = []
    n = 0
    for fi, (sg, sh) in enumerate(rec.get("_frames", FRAMES)):
        # frame 0 is run twice: the second time the breakpoints are handed over as Python ints
        # (pure-Python add only: a compiled double[:] kernel rejects an integer buffer by design)
        for int_x in ((False, True) if (fi == 0 and be == "py" and all(float(v) == int(v) for o in rec["pre"] for v in o["x"])) else (False,)):
            n += _heap_frame(rec, be, kind, sg, sh, int_x, out)
    n += _dtype_probe(rec, be, kind, out)
    n += _history_probe(rec, be, kind, out)
    return n, out


def _history_probe(rec, be, kind, out):
    """queries are observations: asking every object for its integral / average BEFORE the operation
    must not change what the same objects answer AFTER it (FuncObjects: IntegralLinear holds in every
    reachable heap, whatever was asked on the way); the reference is a fresh object built from the
    post-heap of the specification, which has no history"""
    heap = [mk(kind, o) for o in rec["pre"]]
    sub = "heap-history[%s,%s]" % (kind, be)
    hdr = "pre=%s op=%s" % ([show(expected(kind, o)) for o in rec["pre"]], rec["op"])

    def ask(f):
        r = f.integral()
        r = tuple(float(v) for v in r) if isinstance(r, tuple) else (float(r),)
        return r + (float(f.avrg()),)
    st, r = call(lambda: [ask(f) for f in heap if f is not None])
    if st != "ok":
        return 1       # the query itself is C10's business
    st, r = call(apply_op, heap, rec["op"], kind)
    if st != "ok":
        out.append(_mm(sub, "%s %s raised %s after every object had been asked for its integral" % (sub, hdr, r)))
        return 1
    for k, (f, o) in enumerate(zip(heap, rec["post"])):
        if f is None or not len(o["x"]):
            continue
        st, got = call(ask, f)
        st2, exp = call(ask, mk(kind, o))
        if st != "ok" or st2 != "ok":
            if st != st2:
                out.append(_mm(sub, "%s %s: integral()/avrg() of object %d after the operation: %s, of a fresh object "
                                    "with the specified arrays: %s" % (sub, hdr, k + 1, got, exp)))
            continue
        if not all(close(g, e) for g, e in zip(got, exp)):
            out.append(_mm(sub, "%s %s: object %d answers integral()/avrg() = %s after the operation, a fresh object with "
                                "the same (specified) arrays answers %s: the answer depends on what was asked before" % (
                                    sub, hdr, k + 1, list(got), list(exp)), list(got), list(exp)))
            break
    return 2


def _dtype_probe(rec, be, kind, out):
    """the result of add must not depend on whether the receiver was built from Python ints or from
    floats (PSTH-like integer-valued functions are legitimate receivers): code vs code"""
    from fractions import Fraction
    from math import gcd
    op = rec["op"]
    if op["f"] != "add" or op["d"] == op["s"] or be != "py":
        return 0
    r, o = rec["pre"][op["d"] - 1], rec["pre"][op["s"] - 1]
    if not all(float(v) == int(v) for v in r["x"]):
        return 0
    vals = [fr(v) for v in r["y1"]] + ([fr(v) for v in r["y2"]] if kind != "pwc" else [])
    L = 1
    for v in vals:
        L = L * v.denominator // gcd(L, v.denominator)
    xi = [int(v) for v in r["x"]]
    y1i = [int(fr(v) * L) for v in r["y1"]]
    y2i = [int(fr(v) * (L if kind == "pwl" else 1)) for v in r["y2"]]

    def build(as_int):
        cv = (lambda a: list(a)) if as_int else (lambda a: np.array(a, dtype=float))
        if kind == "pwc":
            return pyspike.PieceWiseConstFunc(cv(xi), cv(y1i))
        if kind == "pwl":
            return pyspike.PieceWiseLinFunc(cv(xi), cv(y1i), cv(y2i))
        return pyspike.DiscreteFunc(cv(xi), cv(y1i), cv(y2i))
    a, b = build(False), build(True)
    st1, _ = call(lambda: a.add(mk(kind, o)))
    st2, e2 = call(lambda: b.add(mk(kind, o)))
    sub = "heap[%s,%s,integer-built receiver]" % (kind, be)
    if st1 != "ok":
        return 1
    if st2 != "ok":
        out.append(_mm(sub, "%s receiver x=%s y=%s (ints) + operand %s raised %s" % (sub, xi, y1i, show(expected(kind, o)), e2)))
    elif not same(arrays(kind, b), [list(v) for v in arrays(kind, a)], 1.0, disc=(kind == "disc")):
        out.append(_mm(sub, "%s receiver x=%s y=%s + operand %s: built from ints the sum is %s, built from floats %s" % (
            sub, xi, y1i, show(expected(kind, o)), show(arrays(kind, b)), show(arrays(kind, a)))))
    return 1


def _heap_frame(rec, be, kind, sg, sh, int_x, out):
    n = 0
    if True:
        heap = [mk(kind, o, sg, sh, int_x) for o in rec["pre"]]
        st, r = call(apply_op, heap, rec["op"], kind)
        n += 1
        sub = "heap[%s,%s,s=%g,shift=%g%s]" % (kind, be, sg, sh, ",int x" if int_x else "")
        hdr = "pre=%s op=%s" % ([show(expected(kind, o)) for o in rec["pre"]], rec["op"])
        if st != "ok":
            out.append(_mm(sub, "%s %s raised %s" % (sub, hdr, r)))
            return n
        bad = False
        for k, (f, o) in enumerate(zip(heap, rec["post"])):
            got, exp = arrays(kind, f), expected(kind, o, sg, sh)
            if not same(got, exp, sg, disc=(kind == "disc")):
                what = "receiver" if k == rec["op"]["d"] - 1 else "object %d (not the receiver)" % (k + 1)
                out.append(_mm(sub, "%s %s: %s is %s expected %s" % (sub, hdr, what, show(got), show(exp)),
                               show(got), show(exp)))
                bad = True
                break
        if bad:
            return n
        # independence probe: scaling one object must not change any other one
        for k, f in enumerate(heap):
            if f is None:
                continue
            snap = [arrays(kind, g) for g in heap]
            f.mul_scalar(-2.0)
            for j, g in enumerate(heap):
                if j != k and not identical(arrays(kind, g), snap[j]):
                    out.append(_mm(sub, "%s %s: after the operation, scaling object %d changes object %d "
                                        "(shared arrays)" % (sub, hdr, k + 1, j + 1)))
                    bad = True
            f.mul_scalar(-0.5)
            n += 1
            if bad:
                break
        # no state may leak through a later, unrelated operation (e.g. a cached result buffer):
        # two fresh objects are added, every object of the heap must stay bit-identical
        live = [o for o in rec["pre"] if len(o["x"])]
        if not bad and len(live) >= 2:
            snap = [arrays(kind, g) for g in heap]
            u, v = mk(kind, live[0], sg, sh), mk(kind, live[-1], sg, sh)
            st, r = call(lambda: (u.add(v), v.add(u), u.copy().mul_scalar(3.0)))
            n += 1
            if st == "ok" and any(not identical(arrays(kind, g), sn) for g, sn in zip(heap, snap)):
                out.append(_mm(sub, "%s %s: a later add on unrelated objects changed an object of the heap "
                                    "(state shared between calls)" % (sub, hdr)))
    return n


@checker("query")
def chk_query(rec, be):
    """one (function, query) state of FuncQuery: the result of the public query methods"""
    kind = rec["kind"]
    fq, q, res = rec["f"], rec["q"], rec["res"]
    out = []
    n = 0
    fo = {"x": [fr(v) for v in fq["x"]], "y1": fq["y1"], "y2": fq["y2"]}
    frames = list(rec.get("_frames", ((1.0, 0.0, False), (2.0 ** -10, 0.0, False), (1.0, 0.0, True), (1.0, 2.0 ** 30, False))))
    if "_frames" not in rec and q["kind"] in ("integral", "multi", "eval"):
        # zero-bound frames: the recording is moved so that a query bound is exactly 0.0 inside (or on
        # the edge of) the support -- a bound of 0 is a number like any other, not "no bound"
        from fractions import Fraction
        if all(Fraction(float(v)) == v for v in fo["x"]):
            for key in ("a", "b", "c"):
                z = fr(q[key])
                if z != 0 and Fraction(float(z)) == z and (1.0, -float(z), False) not in frames:
                    frames.append((1.0, -float(z), False))
    for sg, sh, int_x in frames:
        if int_x and not all(v.denominator == 1 for v in fo["x"]):
            continue
        obj = mk(kind, fo, sg, sh, int_x)
        sub = "query[%s,s=%g,shift=%g%s]" % (kind, sg, sh, ",int x" if int_x else "")
        hdr = "f=%s q=%s" % (show(expected(kind, fo)), {k: (str(fr(v)) if isinstance(v, list) else v) for k, v in q.items()})
        a, b, c, d = (float(fr(q[k])) * sg + sh for k in "abcd")
        v, m = float(fr(res["v"])), float(fr(res["m"]))

        def bad(what, got, exp):
            out.append(_mm(sub, "%s %s: %s = %s expected %s" % (sub, hdr, what, got, exp), got, exp))

        def num(what, f, exp, scale=1.0):
            st, r = call(f)
            if st != "ok":
                out.append(_mm(sub, "%s %s: %s raised %s" % (sub, hdr, what, r)))
                return
            if isinstance(exp, tuple):
                ok = len(r) == len(exp) and all(close(x, y, scale) for x, y in zip(r, exp))
                r = fl(r)
            else:
                ok = close(r, exp, scale)
                r = float(r) if is_finite(r) else repr(r)
            if not ok:
                bad(what, r, exp)
        n += 1
        k = q["kind"]
        if k == "bad":
            # error paths are outside the statement of C10 / C11: advisory only (never a verdict)
            if sg == 1.0:
                st, r = call(lambda: obj.integral((a, b)))
                got = "raise:" + r.split(":")[0] if st != "ok" else "value %r" % (r,)
                if got != res["branch"]:
                    m_ = _mm(sub, "%s %s: integral of an interval outside the support: %s, the specification says %s" % (
                        sub, hdr, got, res["branch"]))
                    m_["advisory"] = True
                    out.append(m_)
            continue
        if kind == "disc":
            ratio = (v / m) if m > 0 else 1.0
            if k == "integral":
                num("integral((a,b))", lambda: obj.integral((a, b)), (v, m))
                num("integral([a,b])", lambda: obj.integral([a, b]), (v, m))
                num("avrg((a,b))", lambda: obj.avrg((a, b)), ratio)
                # a sequence may list an interval twice (or overlapping ones): several intervals ADD UP
                num("integral([(a,b),(a,b)])", lambda: obj.integral([(a, b), (a, b)]), (2 * v, 2 * m))
                num("avrg([(a,b),(a,b)])", lambda: obj.avrg([(a, b), (a, b)]), ratio)
            elif k == "full":
                num("integral()", lambda: obj.integral(), (v, m))
                num("integral(None)", lambda: obj.integral(None), (v, m))
                num("avrg()", lambda: obj.avrg(), ratio)
                # history: a query must not freeze the object (FuncObjects: Mul / Add keep Represents)
                st, r = call(lambda: obj.mul_scalar(-0.5))
                num("integral() after mul_scalar(-0.5)", lambda: obj.integral(), (-0.5 * v, m))
                num("avrg() after mul_scalar(-0.5)", lambda: obj.avrg(), -0.5 * ratio if m > 0 else 1.0)
                st, r = call(lambda: obj.add(mk(kind, fo, sg, sh, int_x)))
                num("integral() after mul_scalar(-0.5), add(f)", lambda: obj.integral(), (0.5 * v, 2 * m))
                num("avrg() after mul_scalar(-0.5), add(f)", lambda: obj.avrg(), 0.25 * ratio if m > 0 else 1.0)
            elif k == "multi":
                num("integral([(a,b),(c,d)])", lambda: obj.integral([(a, b), (c, d)]), (v, m))
                num("avrg([(a,b),(c,d)])", lambda: obj.avrg([(a, b), (c, d)]), ratio)
                num("avrg([(c,d),(a,b)])", lambda: obj.avrg([[c, d], [a, b]]), ratio)
            elif k == "plot":
                st, r = call(lambda: obj.get_plottable_data(averaging_window_size=q["k"]) if q["k"] else obj.get_plottable_data())
                ex = [float(fr(t)) * sg + sh for t in res["xs"]]
                ey = [float(fr(t)) for t in res["ys"]]
                if st != "ok":
                    out.append(_mm(sub, "%s %s: get_plottable_data raised %s" % (sub, hdr, r)))
                elif not (same((r[0], r[1]), (ex, ey), sg)):
                    bad("get_plottable_data(%d)" % q["k"], show(r), [ex, ey])
            continue
        if k == "integral":
            num("integral((a,b))", lambda: obj.integral((a, b)), v * sg, sg)
            num("integral([a,b])", lambda: obj.integral([a, b]), v * sg, sg)
            num("avrg((a,b))", lambda: obj.avrg((a, b)), v * sg / (b - a))
            num("avrg([(a,b),(a,b)])", lambda: obj.avrg([(a, b), (a, b)]), v * sg / (b - a))
            # a copy is independent: scaling it must not change what the original answers
            st, g = call(lambda: obj.copy())
            if st == "ok":
                call(lambda: g.mul_scalar(3.0))
                num("integral((a,b)) after copy().mul_scalar(3)", lambda: obj.integral((a, b)), v * sg, sg)
        elif k == "full":
            T = float(fo["x"][-1] - fo["x"][0]) * sg
            num("integral()", lambda: obj.integral(), v * sg, sg)
            num("integral(None)", lambda: obj.integral(None), v * sg, sg)
            num("avrg()", lambda: obj.avrg(), v * sg / T)
            num("integral((x0,xN))", lambda: obj.integral((float(fo["x"][0]) * sg + sh, float(fo["x"][-1]) * sg + sh)), v * sg, sg)
            # history: a query must not freeze the object (FuncObjects: Mul / Add keep Represents, IntegralLinear)
            st, r = call(lambda: obj.mul_scalar(-0.5))
            num("integral() after mul_scalar(-0.5)", lambda: obj.integral(), -0.5 * v * sg, sg)
            num("avrg() after mul_scalar(-0.5)", lambda: obj.avrg(), -0.5 * v * sg / T)
            st, r = call(lambda: obj.add(mk(kind, fo, sg, sh, int_x)))
            num("integral() after mul_scalar(-0.5), add(f)", lambda: obj.integral(), 0.5 * v * sg, sg)
            num("avrg() after mul_scalar(-0.5), add(f)", lambda: obj.avrg(), 0.5 * v * sg / T)
        elif k == "multi":
            num("avrg([(a,b),(c,d)])", lambda: obj.avrg([(a, b), (c, d)]), v / m)
            num("avrg([[c,d],[a,b]])", lambda: obj.avrg([[c, d], [a, b]]), v / m)
        elif k == "eval":
            num("f(t)", lambda: obj(a), v)
            num("f([t])", lambda: obj([a])[0], m)
            x0 = float(fo["x"][0]) * sg + sh
            num("f([x0, t, t])[2]", lambda: obj([x0, a, a])[2], m)
        elif k == "plot":
            st, r = call(obj.get_plottable_data)
            ex = [float(fr(t)) * sg + sh for t in res["xs"]]
            ey = [float(fr(t)) for t in res["ys"]]
            if st != "ok":
                out.append(_mm(sub, "%s %s: get_plottable_data raised %s" % (sub, hdr, r)))
            elif not same((r[0], r[1]), (ex, ey), sg):
                bad("get_plottable_data()", show(r), [ex, ey])
    return n, out

"""pyxshim -- execute the .pyx kernels of /repo/pyspike/cython by source transliteration.

No Cython compiler exists in the sandbox, so the "compiled kernels importable"
configuration is produced by translating the (small) subset of Cython the five
kernel files use into plain Python (DESIGN.md section 3.5, appendix C):

  cimport ...                         dropped (fabs/fmax/fmin/xrange supplied)
  from ...cython_get_tau cimport f    import of the shimmed module
  def f(double[:] a, double t, int k) def f(a, t, k) + a = CArr(a); t = float64(t); k = int(k)
  cdef [inline] double f(...) [nogil] def f(...)
  cdef double[:] x [= e]              x = CArr(e)   (and every later `x = e` re-wraps)
  cdef double y = e / cdef int i = e  y = float64(e) / i = int(e)
  cdef double a, b                    dropped
  with nogil:                         if True:

CArr rejects negative and out-of-range indices: the kernels are compiled with
boundscheck=False / wraparound=False, where such an access is undefined behaviour,
whereas plain Python would silently wrap around.  float64 scalars give inf/nan on
division by zero as C does under cdivision=True.

The modules are re-read from the working tree on every install(), nothing is cached.
A construct outside the subset raises ShimError (a machinery failure, never a verdict).
"""
import os
import re
import sys
import types
import warnings

import numpy as np

PYX = ["cython_get_tau", "cython_add", "cython_profiles", "cython_distances",
       "cython_directionality"]


class ShimError(Exception):
    pass


class COutOfBounds(IndexError):
    pass


class CArr(object):
    """A double[:] memoryview with C semantics made observable."""
    __slots__ = ("a", "n")

    def __init__(self, a):
        if isinstance(a, CArr):
            a = a.a
        a = np.asarray(a)
        if a.dtype != np.float64:
            raise ValueError("Buffer dtype mismatch, expected 'double' but got '%s'" % a.dtype)
        if a.ndim != 1:
            raise ValueError("Buffer has wrong number of dimensions")
        self.a = a
        self.n = a.shape[0]

    def __len__(self):
        return self.n

    def _chk(self, i):
        if i < 0 or i >= self.n:
            raise COutOfBounds("C out-of-bounds access: index %d, length %d" % (i, self.n))

    def _slice(self, s):
        if s.step not in (None, 1):
            raise ShimError("slice step")
        lo = 0 if s.start is None else int(s.start)
        hi = self.n if s.stop is None else int(s.stop)
        if lo < 0 or hi < 0 or lo > self.n or hi > self.n:
            raise COutOfBounds("C out-of-bounds slice [%s:%s], length %d" % (s.start, s.stop, self.n))
        return lo, hi

    def __getitem__(self, i):
        if isinstance(i, slice):
            lo, hi = self._slice(i)
            return CArr(self.a[lo:hi])
        i = int(i)
        self._chk(i)
        return self.a[i]

    def __setitem__(self, i, v):
        if isinstance(i, slice):
            lo, hi = self._slice(i)
            self.a[lo:hi] = v.a if isinstance(v, CArr) else v
            return
        i = int(i)
        self._chk(i)
        self.a[i] = v

    def __array__(self, dtype=None, copy=None):
        return self.a if dtype is None else self.a.astype(dtype)

    def __iter__(self):
        return iter(self.a)


def _fabs(x):
    return abs(x)


def _fmax(a, b):
    if a != a:
        return b
    if b != b:
        return a
    return a if a >= b else b


def _fmin(a, b):
    if a != a:
        return b
    if b != b:
        return a
    return a if a <= b else b


class C2D(object):
    """A double[:, :] memoryview: bounds-checked element access, usable by numpy as an array;
    every element read is reported to `observer` (if set)."""
    __slots__ = ("a",)
    observer = None

    def __init__(self, a):
        if isinstance(a, C2D):
            a = a.a
        a = np.asarray(a)
        if a.dtype != np.float64:
            raise ValueError("Buffer dtype mismatch, expected 'double' but got '%s'" % a.dtype)
        if a.ndim != 2:
            raise ValueError("Buffer has wrong number of dimensions (expected 2, got %d)" % a.ndim)
        self.a = a

    def __len__(self):
        return self.a.shape[0]

    def __array__(self, dtype=None, copy=None):
        return self.a if dtype is None else self.a.astype(dtype)

    def __getitem__(self, ij):
        i, j = ij
        i, j = int(i), int(j)
        if i < 0 or j < 0 or i >= self.a.shape[0] or j >= self.a.shape[1]:
            raise COutOfBounds("C out-of-bounds access: index (%d, %d), shape %s" % (i, j, self.a.shape))
        if C2D.observer is not None:
            C2D.observer(i, j)
        return self.a[i, j]


class CLong(object):
    """A long[:] memoryview: bounds-checked; every write is reported to `observer` (if set)."""
    __slots__ = ("a", "n")
    observer = None

    def __init__(self, a):
        a = np.asarray(a)
        if a.dtype.kind != "i" or a.ndim != 1:
            raise ValueError("Buffer dtype mismatch, expected 'long' but got '%s'" % a.dtype)
        self.a = np.array(a, dtype=np.int64)
        self.n = self.a.shape[0]

    def __len__(self):
        return self.n

    def __array__(self, dtype=None, copy=None):
        return self.a if dtype is None else self.a.astype(dtype)

    def _chk(self, i):
        if i < 0 or i >= self.n:
            raise COutOfBounds("C out-of-bounds access: index %d, length %d" % (i, self.n))

    def __getitem__(self, i):
        i = int(i)
        self._chk(i)
        return int(self.a[i])

    def __setitem__(self, i, v):
        i = int(i)
        self._chk(i)
        self.a[i] = int(v)
        if CLong.observer is not None:
            CLong.observer(i, int(v))


def _unwrap(r):
    if isinstance(r, CArr):
        return np.array(r.a)
    if isinstance(r, (CLong, C2D)):
        return np.array(r.a)
    if isinstance(r, tuple):
        return tuple(_unwrap(x) for x in r)
    if isinstance(r, list):
        return [_unwrap(x) for x in r]
    return r


def _public(f):
    def g(*a, **k):
        with np.errstate(all="ignore"):
            return _unwrap(f(*a, **k))
    g.__name__ = f.__name__
    g.__wrapped_shim__ = f
    return g


_TYPES = ("double[:, :]", "double[:,:]", "double[:]", "double", "int", "bint", "long")


def _split_params(s):
    out, depth, cur = [], 0, ""
    for ch in s:
        if ch in "([":
            depth += 1
        elif ch in ")]":
            depth -= 1
        if ch == "," and depth == 0:
            out.append(cur)
            cur = ""
        else:
            cur += ch
    if cur.strip():
        out.append(cur)
    return [p.strip() for p in out]


def _param(p):
    """'double[:] s1' / 'double MRTS=0.' / 'a'  ->  (name, default or None, ctype or None)"""
    default = None
    if "=" in p:
        p, default = p.split("=", 1)
        p, default = p.strip(), default.strip()
    ctype = None
    for t in _TYPES:
        if p.startswith(t + " "):
            ctype = t
            p = p[len(t):].strip()
            break
    if not re.match(r"^[A-Za-z_]\w*$", p):
        raise ShimError("parameter not understood: %r" % p)
    return p, default, ctype


def _conv(name, ctype):
    if ctype == "double[:]":
        return "%s = __CArr(%s)" % (name, name)
    if ctype in ("double[:, :]", "double[:,:]"):
        return "%s = __C2D(%s)" % (name, name)
    if ctype == "double":
        return "%s = __f64(%s)" % (name, name)
    if ctype in ("int", "bint", "long"):
        return "%s = int(%s)" % (name, name)
    return None


def translate(src, modname):
    lines = src.split("\n")
    out = []
    views = set()          # names typed double[:] in the current function
    i = 0
    n = len(lines)
    while i < n:
        line = lines[i]
        stripped = line.strip()
        indent = line[:len(line) - len(line.lstrip())]
        # ---- directives / cimports
        if re.match(r"^(from\s+libc\S*\s+cimport|cimport\s)", stripped):
            out.append(indent + "pass")
            i += 1
            continue
        m = re.match(r"^from\s+(\S+)\s+cimport\s+(.*)$", stripped)
        if m:
            out.append(indent + "from %s import %s" % (m.group(1), m.group(2)))
            i += 1
            continue
        # ---- function headers (possibly spanning several lines)
        m = re.match(r"^(def|cdef)\s+(?:inline\s+)?(?:(?:double|int|void|object)\s+)?([A-Za-z_]\w*)\s*\(", stripped)
        if m and (m.group(1) == "def" or stripped.startswith("cdef")) and \
                not re.match(r"^cdef\s+(double|int)\s*(\[:\])?\s+[A-Za-z_]\w*\s*(=|,|$)", stripped):
            hdr = stripped.split("#")[0].rstrip()
            j = i
            while hdr.count("(") != hdr.count(")") or not hdr.rstrip().endswith(":"):
                j += 1
                if j >= n:
                    raise ShimError("unterminated header at line %d of %s" % (i + 1, modname))
                hdr += " " + lines[j].split("#")[0].strip()
            m2 = re.match(r"^(?:def|cdef)\s+(?:inline\s+)?(?:(?:double|int|void|object)\s+)?([A-Za-z_]\w*)\s*\((.*)\)\s*(?:nogil)?\s*:$", hdr)
            if not m2:
                raise ShimError("header not understood: %r" % hdr)
            fname, params = m2.group(1), _split_params(m2.group(2))
            parsed = [_param(p) for p in params if p]
            sig = ", ".join(nm if d is None else "%s=%s" % (nm, d) for nm, d, _ in parsed)
            if m.group(1) == "def":
                out.append(indent + "@__public")
            out.append(indent + "def %s(%s):" % (fname, sig))
            views = set(nm for nm, _, t in parsed if t == "double[:]")
            body_indent = indent + "    "
            for nm, _, t in parsed:
                c = _conv(nm, t)
                if c:
                    out.append(body_indent + c)
            # keep line numbering roughly aligned
            i = j + 1
            continue
        # ---- cdef declarations in bodies
        m = re.match(r"^cdef\s+(double\[:\]|double|int|bint|long\[:\]|long)\s+(.*)$", stripped)
        if m:
            ctype, rest = m.group(1), m.group(2)
            rest_nc = rest.split("#")[0].strip()
            if "=" in rest_nc:
                name, expr = rest_nc.split("=", 1)
                name, expr = name.strip(), expr.strip()
                # continuation lines
                j = i
                while expr.count("(") != expr.count(")") or expr.endswith("\\"):
                    j += 1
                    expr = expr.rstrip("\\") + " " + lines[j].strip()
                if ctype == "double[:]":
                    views.add(name)
                    out.append(indent + "%s = __CArr(%s)" % (name, expr))
                elif ctype == "long[:]":
                    out.append(indent + "%s = __CLong(%s)" % (name, expr))
                elif ctype == "double":
                    out.append(indent + "%s = __f64(%s)" % (name, expr))
                else:
                    out.append(indent + "%s = int(%s)" % (name, expr))
                i = j + 1
                continue
            names = [x.strip() for x in rest_nc.split(",")]
            for nm in names:
                if not re.match(r"^[A-Za-z_]\w*$", nm):
                    raise ShimError("declaration not understood: %r" % stripped)
                if ctype == "double[:]":
                    views.add(nm)
            out.append(indent + "pass")
            i += 1
            continue
        if stripped.startswith("cdef ") or stripped.startswith("cpdef ") or stripped.startswith("ctypedef "):
            raise ShimError("unsupported cdef at line %d of %s: %r" % (i + 1, modname, stripped))
        # ---- nogil
        if re.match(r"^with\s+nogil\s*:", stripped):
            out.append(indent + "if True:" + ("  " + stripped.split(":", 1)[1] if "#" in stripped else ""))
            i += 1
            continue
        if "nogil" in stripped.split("#")[0] or "<double>" in stripped or "<int>" in stripped:
            raise ShimError("unsupported construct at line %d of %s: %r" % (i + 1, modname, stripped))
        # ---- assignment to a memoryview-typed name re-wraps
        m = re.match(r"^([A-Za-z_]\w*)\s*=(?!=)\s*(.*)$", stripped)
        if m and m.group(1) in views:
            expr = m.group(2)
            j = i
            code = expr.split("#")[0].rstrip()
            while code.count("(") != code.count(")") or code.endswith("\\"):
                j += 1
                code = code.rstrip("\\") + " " + lines[j].split("#")[0].strip()
            out.append(indent + "%s = __CArr(%s)" % (m.group(1), code))
            i = j + 1
            continue
        out.append(line)
        i += 1
    return "\n".join(out)


def build(repo="/repo"):
    """Translate and execute the kernel modules; returns {full module name: module}."""
    mods = {}
    cy = os.path.join(repo, "pyspike", "cython")
    for name in PYX:
        full = "pyspike.cython." + name
        path = os.path.join(cy, name + ".pyx")
        with open(path) as f:
            src = f.read()
        try:
            code = translate(src, name)
            mod = types.ModuleType(full)
            mod.__file__ = path + " (shim)"
            mod.__dict__.update({"__CArr": CArr, "__f64": np.float64, "__public": _public,
                                 "fabs": _fabs, "fmax": _fmax, "fmin": _fmin,
                                 "xrange": range})
            # the cimported get_tau must resolve to the shimmed module while executing
            saved = {k: sys.modules.get(k) for k in mods}
            sys.modules.update(mods)
            try:
                with warnings.catch_warnings():
                    warnings.simplefilter("ignore")
                    exec(compile(code, path + " (shim)", "exec"), mod.__dict__)
            finally:
                for k, v in saved.items():
                    if v is None:
                        sys.modules.pop(k, None)
                    else:
                        sys.modules[k] = v
        except ShimError:
            raise
        except SyntaxError as e:
            raise ShimError("transliteration of %s is not valid Python: %s" % (name, e))
        mods[full] = mod
    return mods


def build_simann(repo, rand, rand_max=2147483647):
    """the simulated-annealing kernel with an injected rand(): returns the shimmed module"""
    import math
    name = "cython_simulated_annealing"
    path = os.path.join(repo, "pyspike", "cython", name + ".pyx")
    with open(path) as f:
        src = f.read()
    code = translate(src, name)
    mod = types.ModuleType("pyspike.cython." + name)
    mod.__file__ = path + " (shim)"

    def c_exp(x):
        try:
            return math.exp(x)
        except OverflowError:
            return float("inf")
    mod.__dict__.update({"__CArr": CArr, "__C2D": C2D, "__CLong": CLong, "__f64": np.float64, "__public": _public,
                         "rand": rand, "RAND_MAX": rand_max, "exp": c_exp, "fmod": math.fmod, "xrange": range})
    try:
        with warnings.catch_warnings():
            warnings.simplefilter("ignore")
            exec(compile(code, path + " (shim)", "exec"), mod.__dict__)
    except SyntaxError as e:
        raise ShimError("transliteration of %s is not valid Python: %s" % (name, e))
    return mod


_installed = {}


def install(repo="/repo"):
    """Make `from .cython.cython_xxx import ...` succeed with the shimmed kernels."""
    global _installed
    mods = build(repo)
    import pyspike.cython as pkg
    for full, mod in mods.items():
        sys.modules[full] = mod
        setattr(pkg, full.rsplit(".", 1)[1], mod)
    _installed = mods
    return mods


def uninstall():
    """Back to the pure-Python fallback (the kernels are not importable)."""
    global _installed
    import pyspike.cython as pkg
    for name in PYX:
        full = "pyspike.cython." + name
        sys.modules.pop(full, None)
        if hasattr(pkg, name):
            delattr(pkg, name)
    _installed = {}


def installed():
    return bool(_installed)

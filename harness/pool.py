"""Value pool for TextIO.tla: awkward doubles closed under the rounding maps of save_spike_trains_to_txt.
The rounding is computed with exact decimal arithmetic (round-half-even of the exact binary value to
p+1 significant digits), independently of the float formatting code under test."""
import json
import random
from decimal import Decimal, ROUND_HALF_EVEN, getcontext

getcontext().prec = 80
PRECS = (3, 8, 17)
BASE = [0.0, 0.1, 1.0 / 3.0, 2.0 / 3.0, 1e-300, 123456.789012345678, 2.0 ** 53 + 2.0, 5.0, 0.5, 7.25,
        999999.5, 1.00049999999, 2.5e-5, -1.5, -0.123456789012, 42.0]


def round_sig(x, p):
    """the double nearest to x rounded half-even to p+1 significant decimal digits"""
    if x == 0.0:
        return 0.0
    d = Decimal(x)
    q = d.quantize(Decimal(1).scaleb(d.adjusted() - p), rounding=ROUND_HALF_EVEN)
    return float(str(q))


def build(seed=0, nbase=7, precs=PRECS):
    rnd = random.Random(seed)
    base = [0.1, 1.0 / 3.0, 123456.789012345678, 2.0 ** 53 + 2.0, 5.0] + rnd.sample(BASE, nbase - 4)
    if seed:
        base += [rnd.uniform(-10, 10), rnd.lognormvariate(0, 8)]
    vals = set(base)
    while True:
        new = set(round_sig(v, p) for v in vals for p in precs) - vals
        if not new:
            break
        vals |= new
    vals = sorted(vals)
    index = {v: i + 1 for i, v in enumerate(vals)}
    table = {"n": len(vals), "precs": list(precs), "short": index[5.0],      # the value written as the one-character token "5"
             "rnd": [[index[round_sig(v, p)] for v in vals] for p in precs]}
    return vals, table


def write(path, table):
    with open(path, "w") as f:
        json.dump(table, f)

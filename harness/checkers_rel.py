"""Relational checkers (C07, C08, C15, C16, C12): the implementation is compared with itself under
the relation that spec/Relations.tla states and model-checks on the definitions; the cases (train
pairs, keyword settings, transformation parameters) are the TLC states exported by that module."""
import math

import numpy as np

import impl
from impl import PB, DPB, pyspike, call, arr, train, nonempty, shim
from common import fr, frl, close, fl, is_finite, TOL
from replay import checker

EPS = 1e-9


def _mm(sub, text, observed=None, expected=None):
    return {"sub": sub, "text": text, "observed": observed, "expected": expected}


def _kw(rec, sg=1.0, mrts=None):
    m = float(fr(rec["mrts"])) if mrts is None else float(mrts)
    return m * sg, bool(rec.get("ri", False)), float(fr(rec["mtau"])) * sg


def ptuple(p):
    if hasattr(p, "y1"):
        return ("pwl", np.asarray(p.x, float), np.asarray(p.y1, float), np.asarray(p.y2, float))
    if hasattr(p, "mp"):
        return ("disc", np.asarray(p.x, float), np.asarray(p.y, float), np.asarray(p.mp, float))
    return ("pwc", np.asarray(p.x, float), np.asarray(p.y, float))


def same_arrays(g, e, scale=1.0):
    g = np.asarray(g, float)
    e = np.asarray(e, float)
    return len(g) == len(e) and all(close(x, y, scale) for x, y in zip(g, e))


def same_profile(p, q, xscale=1.0):
    """p, q ptuples; q's time axis is compared with scale xscale"""
    if p[0] != q[0] or len(p) != len(q):
        return False
    if not same_arrays(p[1], q[1], xscale):
        return False
    return all(same_arrays(u, v) for u, v in zip(p[2:], q[2:]))


def pstr(p):
    return "%s(%s)" % (p[0], ", ".join(str(fl(v)) for v in p[1:]))


PROFILES = {
    "isi_profile": lambda s1, s2, m, ri, mt: pyspike.isi_profile(s1, s2, MRTS=m),
    "spike_profile": lambda s1, s2, m, ri, mt: pyspike.spike_profile(s1, s2, MRTS=m, RI=ri),
    "spike_sync_profile": lambda s1, s2, m, ri, mt: pyspike.spike_sync_profile(s1, s2, max_tau=mt, MRTS=m),
    "spike_train_order_profile": lambda s1, s2, m, ri, mt: pyspike.spike_train_order_profile(s1, s2, max_tau=mt, MRTS=m),
}
SCALARS = {
    "isi_distance": lambda s1, s2, m, ri, mt: pyspike.isi_distance(s1, s2, MRTS=m),
    "spike_distance": lambda s1, s2, m, ri, mt: pyspike.spike_distance(s1, s2, MRTS=m, RI=ri),
    "spike_sync": lambda s1, s2, m, ri, mt: pyspike.spike_sync(s1, s2, max_tau=mt, MRTS=m),
}
ORDER_SCALARS = {
    "spike_train_order[normalize=False]": lambda s1, s2, m, ri, mt: pyspike.spike_train_order(s1, s2, normalize=False, max_tau=mt, MRTS=m),
    "spike_directionality[normalize=False]": lambda s1, s2, m, ri, mt: pyspike.spike_directionality(s1, s2, normalize=False, max_tau=mt, MRTS=m),
}


def _hdr(rec):
    return "a=%s b=%s [%s,%s] MRTS=%s RI=%s max_tau=%s" % (
        rec["a"], rec["b"], rec["ts"], rec["te"], fr(rec["mrts"]), rec.get("ri"), fr(rec["mtau"]))


class Runner(object):
    """collects mismatches; every call that raises is reported once"""

    def __init__(self, rec, be):
        self.rec, self.be = rec, be
        self.out = []
        self.n = 0
        self.hdr = _hdr(rec)

    def run(self, name, f, *args):
        self.n += 1
        st, r = call(f, *args)
        if st != "ok":
            self.bad(name, "raised %s" % r)
            return None
        return r

    def bad(self, sub, text, observed=None, expected=None):
        self.out.append(_mm("%s[%s]" % (sub, self.be), "%s[%s] %s: %s" % (sub, self.be, self.hdr, text),
                            observed, expected))

    def result(self):
        return self.n, self.out


# ------------------------------------------------------------------------------------- C07
@checker("rel_c07")
def chk_c07(rec, be):
    R = Runner(rec, be)
    a, b, ts, te = rec["a"], rec["b"], rec["ts"], rec["te"]
    m, ri, mt = _kw(rec)
    s1, s2 = train(a, ts, te), train(b, ts, te)
    # --- symmetry
    for name, f in list(PROFILES.items())[:3]:
        p = R.run(name, f, s1, s2, m, ri, mt)
        q = R.run(name, f, s2, s1, m, ri, mt)
        if p is None or q is None:
            continue
        p, q = ptuple(p), ptuple(q)
        if not same_profile(p, q):
            R.bad(name, "f(a,b) = %s but f(b,a) = %s" % (pstr(p), pstr(q)))
        # range of the profile values
        if p[0] in ("pwc", "pwl"):
            for v in np.concatenate(p[2:]):
                if not (is_finite(v) and -EPS <= v <= 1 + EPS):
                    R.bad(name, "profile value %r outside [0,1] in %s" % (v, pstr(p)))
                    break
        else:
            for v, mpv in zip(p[2], p[3]):
                if not (is_finite(v) and -EPS <= v <= mpv + EPS):
                    R.bad(name, "profile entry %r outside [0, multiplicity %r]" % (v, mpv))
                    break
    # symmetry also with the automatic threshold (resolved from both trains)
    if m == 0:
        for name, f in list(PROFILES.items())[:3] + list(SCALARS.items()):
            p = R.run(name, f, s1, s2, "auto", ri, mt)
            q = R.run(name, f, s2, s1, "auto", ri, mt)
            if p is None or q is None:
                continue
            if name in PROFILES:
                if not same_profile(ptuple(p), ptuple(q)):
                    R.bad(name, "MRTS='auto': f(a,b) = %s but f(b,a) = %s" % (pstr(ptuple(p)), pstr(ptuple(q))))
            elif not close(p, q):
                R.bad(name, "MRTS='auto': f(a,b) = %r but f(b,a) = %r" % (p, q))
    # order profile range
    p = R.run("spike_train_order_profile", PROFILES["spike_train_order_profile"], s1, s2, m, ri, mt)
    if p is not None:
        for v, mpv in zip(p.y, p.mp):
            if not (is_finite(v) and -mpv - EPS <= v <= mpv + EPS):
                R.bad("spike_train_order_profile", "entry %r outside [-mp, mp] (mp=%r)" % (v, mpv))
                break
    # --- scalars: symmetry and range, whole recording and sub-intervals
    T = te - ts
    ivals = [None, (ts + 0.25 * T, ts + 0.75 * T), (float(ts), ts + 0.5 * T), (ts + 0.5 * T, float(te))]
    xs = sorted(set([float(ts), float(te)] + [float(x) for x in a] + [float(x) for x in b]))
    if len(xs) > 2:
        ivals.append((xs[1], xs[-1]))
    for name, f in SCALARS.items():
        for iv in ivals:
            g = (lambda u, v: f(u, v, m, ri, mt)) if iv is None else None
            if iv is None:
                x = R.run(name, f, s1, s2, m, ri, mt)
                y = R.run(name, f, s2, s1, m, ri, mt)
            else:
                fn = getattr(pyspike, name)
                kw = {"MRTS": m}
                if name == "spike_distance":
                    kw["RI"] = ri
                if name == "spike_sync":
                    kw["max_tau"] = mt
                x = R.run(name, lambda: fn(s1, s2, interval=iv, **kw))
                y = R.run(name, lambda: fn(s2, s1, interval=iv, **kw))
            if x is None or y is None:
                continue
            if not (is_finite(x) and -EPS <= x <= 1 + EPS):
                R.bad(name, "value %r outside [0,1] (interval=%s)" % (x, iv), float(x))
            elif not close(x, y):
                R.bad(name, "f(a,b)=%r but f(b,a)=%r (interval=%s)" % (x, y, iv), [float(x), float(y)])
    # order / directionality range
    x = R.run("spike_train_order", lambda: pyspike.spike_train_order(s1, s2, max_tau=mt, MRTS=m))
    if x is not None and len(a) + len(b) > 0 and not (is_finite(x) and -1 - EPS <= x <= 1 + EPS):
        R.bad("spike_train_order", "value %r outside [-1,1]" % x, float(x))
    if len(a) > 0:
        x = R.run("spike_directionality", lambda: pyspike.spike_directionality(s1, s2, max_tau=mt, MRTS=m))
        if x is not None and not (is_finite(x) and -1 - EPS <= x <= 1 + EPS):
            R.bad("spike_directionality", "value %r outside [-1,1]" % x, float(x))
    # --- identity: a train with itself and with an equal copy
    for other, tag in ((s1, "same object"), (s1.copy(), "copy")):
        for name, f, exp in (("isi_distance", SCALARS["isi_distance"], 0.0),
                             ("spike_distance", SCALARS["spike_distance"], 0.0),
                             ("spike_sync", SCALARS["spike_sync"], 1.0),
                             ("spike_directionality[normalize=False]",
                              ORDER_SCALARS["spike_directionality[normalize=False]"], 0.0)):
            x = R.run(name, f, s1, other, m, ri, mt)
            if x is not None and not close(x, exp):
                R.bad(name, "f(a,a) [%s] = %r expected %s" % (tag, x, exp), float(x), exp)
    return R.result()


# ------------------------------------------------------------------------------------- C08
def _tr(spikes, ts, te, kind, par):
    """transformed (spikes, ts, te) as floats"""
    s = [float(x) for x in spikes]
    if kind == "shift":
        return [x + par for x in s], ts + par, te + par
    if kind == "scale":
        return [x * par for x in s], ts * par, te * par
    if kind == "mirror":
        return [ts + te - x for x in reversed(s)], float(ts), float(te)
    raise ValueError(kind)


def _tr_profile(p, ts, te, kind, par):
    """expected transformed profile tuple"""
    if kind == "shift":
        return (p[0], p[1] + par) + tuple(p[2:])
    if kind == "scale":
        return (p[0], p[1] * par) + tuple(p[2:])
    x = (ts + te - p[1])[::-1]
    if p[0] == "pwc":
        return ("pwc", x, p[2][::-1])
    if p[0] == "pwl":
        return ("pwl", x, p[3][::-1], p[2][::-1])
    return ("disc", x, p[2][::-1], p[3][::-1])


@checker("rel_c08")
def chk_c08(rec, be):
    R = Runner(rec, be)
    a, b, ts, te = rec["a"], rec["b"], rec["ts"], rec["te"]
    m, ri, mt = _kw(rec)
    s1, s2 = train(a, ts, te), train(b, ts, te)
    modes = [m] + (["auto"] if m == 0 else [])
    for mode in modes:
        _c08_mode(R, rec, a, b, ts, te, s1, s2, mode, ri, mt)
    if m == 0 and mt == 0 and not ri and a and b:
        # the same relations on a dilated copy of the pair (times x3, second train moved by +1): sparse trains
        # with long intervals, where an explicit max_tau of 1 or 2 - not the neighbouring spikes - limits the window
        a3 = [3 * x for x in a]
        b3 = sorted(set(min(3 * x + 1, 3 * te) for x in b))
        r3 = dict(rec, _shifts=(2,), _scales=())
        for mt3 in (1.0, 2.0):
            _c08_mode(R, r3, a3, b3, 3 * ts, 3 * te, train(a3, 3 * ts, 3 * te), train(b3, 3 * ts, 3 * te), 0.0, False, mt3,
                      pre="dilated pair a=%s b=%s [%s,%s] max_tau=%g: " % (a3, b3, 3 * ts, 3 * te, mt3))
    return R.result()


def _c08_mode(R, rec, a, b, ts, te, s1, s2, m, ri, mt, pre=""):
    base = {}
    for name, f in list(PROFILES.items()) + list(SCALARS.items()) + list(ORDER_SCALARS.items()):
        base[name] = R.run(name, f, s1, s2, m, ri, mt)
    trans = [("shift", float(k)) for k in rec.get("_shifts", (-3, 2))] + \
            [("scale", float(c)) for c in rec.get("_scales", (3,))] + \
            [("scale", 0.5), ("scale", 0.25), ("shift", 0.5), ("mirror", None)]
    for kind, par in trans:
        a2, ts2, te2 = _tr(a, ts, te, kind, par)
        b2, _, _ = _tr(b, ts, te, kind, par)
        f = par if kind == "scale" else 1.0
        m2, mt2 = (m if m == "auto" else m * f), mt * f
        t1 = pyspike.SpikeTrain(np.array(a2, dtype=float), [ts2, te2])
        t2 = pyspike.SpikeTrain(np.array(b2, dtype=float), [ts2, te2])
        tag = "%s%s(%s)%s" % (pre, kind, par, " MRTS='auto'" if m == "auto" else "")
        for name, fn in PROFILES.items():
            if base[name] is None:
                continue
            q = R.run(name, fn, t1, t2, m2, ri, mt2)
            if q is None:
                continue
            exp = _tr_profile(ptuple(base[name]), ts, te, kind, par)
            got = ptuple(q)
            if name == "spike_train_order_profile" and kind == "mirror":
                # mirrored AND negated; the two edge entries never count
                ok = same_arrays(got[1], exp[1], 1.0) and same_arrays(got[3], exp[3]) and \
                    same_arrays(got[2][1:-1], -exp[2][1:-1])
            else:
                ok = same_profile(exp, got, max(1.0, abs(f)))
            if not ok:
                R.bad(name, "%s: got %s expected %s" % (tag, pstr(got), pstr(exp)))
        for name, fn in list(SCALARS.items()) + list(ORDER_SCALARS.items()):
            if base[name] is None:
                continue
            x = R.run(name, fn, t1, t2, m2, ri, mt2)
            if x is None:
                continue
            e = base[name]
            if kind == "mirror" and name in ORDER_SCALARS:
                e = -e
            if not close(x, e):
                R.bad(name, "%s: value %r expected %r" % (tag, x, e), float(x), float(e))


# ------------------------------------------------------------------------------------- C15
@checker("rel_c15")
def chk_c15(rec, be):
    R = Runner(rec, be)
    a, b, ts, te = rec["a"], rec["b"], rec["ts"], rec["te"]
    for sg in (1.0, 2.0 ** -10, 2.0 ** -40):
        m, ri, mt = _kw(rec, sg)
        if sg == 2.0 ** -40 and m != 0:
            continue            # the tiny unit only serves the "MRTS omitted = MRTS 0" clause (absolute defaults)
        s1, s2 = train(a, ts, te, sg), train(b, ts, te, sg)
        ms = sorted(set(float(fr([q, 4])) * sg for q in rec.get("_mrtsq", (0, 2, 10))))
        if sg == 2.0 ** -40:
            ms = [0.0]
        vals = {}
        for mm in ms:
            if mm < m:
                continue
            vals[mm] = {}
            for name, f in list(PROFILES.items())[:3] + list(SCALARS.items()):
                vals[mm][name] = R.run(name, f, s1, s2, mm, ri, mt)
        lo = vals.get(m)
        if lo is None:
            continue
        for mm, hi in vals.items():
            if mm == m:
                continue
            tag = "s=%g MRTS %g -> %g" % (sg, m, mm)
            for name in ("isi_profile", "spike_profile"):
                if lo[name] is None or hi[name] is None:
                    continue
                p, q = ptuple(lo[name]), ptuple(hi[name])
                if not same_arrays(p[1], q[1], sg):
                    R.bad(name, "%s: breakpoints change %s -> %s" % (tag, fl(p[1]), fl(q[1])))
                    continue
                for u, v in zip(np.concatenate(p[2:]), np.concatenate(q[2:])):
                    if not (v <= u + EPS):
                        R.bad(name, "%s: value increases %r -> %r" % (tag, u, v), float(v), float(u))
                        break
            for name in ("isi_distance", "spike_distance"):
                if lo[name] is not None and hi[name] is not None and not (hi[name] <= lo[name] + EPS):
                    R.bad(name, "%s: distance increases %r -> %r" % (tag, lo[name], hi[name]))
            if lo["spike_sync_profile"] is not None and hi["spike_sync_profile"] is not None:
                p, q = ptuple(lo["spike_sync_profile"]), ptuple(hi["spike_sync_profile"])
                if not (same_arrays(p[1], q[1], sg) and same_arrays(p[3], q[3])):
                    R.bad("spike_sync_profile", "%s: axis / multiplicity change" % tag)
                elif any(v < u - EPS for u, v in zip(p[2], q[2])):
                    R.bad("spike_sync_profile", "%s: coincidence removed %s -> %s" % (tag, fl(p[2]), fl(q[2])))
            if lo["spike_sync"] is not None and hi["spike_sync"] is not None and \
                    not (hi["spike_sync"] >= lo["spike_sync"] - EPS):
                R.bad("spike_sync", "%s: SPIKE-Sync decreases %r -> %r" % (tag, lo["spike_sync"], hi["spike_sync"]))
        # MRTS = 0 is the non-adaptive measure: identical to not passing MRTS at all
        if m == 0:
            plain = {
                "isi_profile": lambda: pyspike.isi_profile(s1, s2),
                "spike_profile": lambda: pyspike.spike_profile(s1, s2, RI=ri),
                "spike_sync_profile": lambda: pyspike.spike_sync_profile(s1, s2, max_tau=mt),
                "spike_train_order_profile": lambda: pyspike.spike_train_order_profile(s1, s2, max_tau=mt),
            }
            for name, g in plain.items():
                p = R.run(name, g)
                q = R.run(name, PROFILES[name], s1, s2, 0.0, ri, mt)
                if p is not None and q is not None and not same_profile(ptuple(p), ptuple(q), sg):
                    R.bad(name, "s=%g: default MRTS gives %s, MRTS=0 gives %s" % (sg, pstr(ptuple(p)), pstr(ptuple(q))))
            for name, g in (("isi_distance", lambda: pyspike.isi_distance(s1, s2)),
                            ("spike_distance", lambda: pyspike.spike_distance(s1, s2, RI=ri)),
                            ("spike_sync", lambda: pyspike.spike_sync(s1, s2, max_tau=mt)),
                            ("spike_train_order[normalize=False]", lambda: pyspike.spike_train_order(s1, s2, normalize=False, max_tau=mt)),
                            ("spike_directionality[normalize=False]", lambda: pyspike.spike_directionality(s1, s2, normalize=False, max_tau=mt))):
                x = R.run(name, g)
                fn = SCALARS.get(name) or ORDER_SCALARS.get(name)
                y = R.run(name, fn, s1, s2, 0.0, ri, mt)
                if x is not None and y is not None and not close(x, y):
                    R.bad(name, "s=%g: default MRTS gives %r, MRTS=0 gives %r" % (sg, x, y))
        # an MRTS below every inter-spike interval changes nothing
        if 0 < m < float(rec["minisi"]) * sg:
            for name, f in list(PROFILES.items()) + list(SCALARS.items()) + list(ORDER_SCALARS.items()):
                p = R.run(name, f, s1, s2, m, ri, mt)
                q = R.run(name, f, s1, s2, 0.0, ri, mt)
                if p is None or q is None:
                    continue
                if name in PROFILES:
                    if not same_profile(ptuple(p), ptuple(q), sg):
                        R.bad(name, "s=%g: MRTS=%g below every ISI changes the profile: %s vs %s" % (
                            sg, m, pstr(ptuple(p)), pstr(ptuple(q))))
                elif not close(p, q):
                    R.bad(name, "s=%g: MRTS=%g below every ISI changes the value: %r vs %r" % (sg, m, p, q))
        # 'auto' = explicit automatic threshold = root mean square of the pooled ISI lengths
        if fr(rec["mrts"]) == 0 and fr(rec["mtau"]) == 0:
            th = R.run("default_thresh", lambda: pyspike.isi_lengths.default_thresh([s1, s2]))
            if th is not None:
                e = math.sqrt(float(fr(rec["autosq"]))) * sg
                if not close(th, e, sg):
                    R.bad("default_thresh", "s=%g: threshold %r expected sqrt(%s)*s = %r (pools %s, %s)" % (
                        sg, th, fr(rec["autosq"]), e, rec["poola"], rec["poolb"]), float(th), e)
                for name, f in list(PROFILES.items()) + list(SCALARS.items()) + list(ORDER_SCALARS.items()):
                    p = R.run(name, f, s1, s2, "auto", ri, mt)
                    q = R.run(name, f, s1, s2, th, ri, mt)
                    if p is None or q is None:
                        continue
                    if name in PROFILES:
                        if not same_profile(ptuple(p), ptuple(q), sg):
                            R.bad(name, "s=%g: MRTS='auto' differs from MRTS=default_thresh" % sg)
                    elif not close(p, q):
                        R.bad(name, "s=%g: MRTS='auto' gives %r, explicit threshold %r" % (sg, p, q))
    return R.result()


# ------------------------------------------------------------------------------------- C16
def _marks(rec, s1, s2, m, mt, R):
    """coincidence marks per spike of a and of b as each coincidence-based function reports them"""
    a, b = rec["a"], rec["b"]
    out = {}
    p = R.run("spike_sync_profile", lambda: pyspike.spike_sync_profile(s1, s2, max_tau=mt, MRTS=m))
    if p is not None:
        ma, mb = [0] * len(a), [0] * len(b)
        xs = [float(x) for x in p.x[1:-1]]
        for x, y, mp in zip(xs, p.y[1:-1], p.mp[1:-1]):
            for k in range(len(a)):
                if float(s1.spikes[k]) == x and y >= 1:
                    ma[k] = 1
            for k in range(len(b)):
                if float(s2.spikes[k]) == x and y >= 1:
                    mb[k] = 1
        out["spike_sync_profile"] = (ma, mb)
    p = R.run("spike_train_order_profile", lambda: pyspike.spike_train_order_profile(s1, s2, max_tau=mt, MRTS=m))
    if p is not None:
        ma, mb = [0] * len(a), [0] * len(b)
        for x, y, mp in zip(p.x[1:-1], p.y[1:-1], p.mp[1:-1]):
            for k in range(len(a)):
                if float(s1.spikes[k]) == float(x) and (y != 0 or mp == 2):
                    ma[k] = 1
            for k in range(len(b)):
                if float(s2.spikes[k]) == float(x) and (y != 0 or mp == 2):
                    mb[k] = 1
        out["spike_train_order_profile"] = (ma, mb)
    p = R.run("spike_directionality_values", lambda: pyspike.spike_directionality_values(s1, s2, max_tau=mt, MRTS=m))
    if p is not None:
        out["spike_directionality_values"] = ([1 if v != 0 else 0 for v in p[0]], [1 if v != 0 else 0 for v in p[1]])
    p = R.run("filter_by_spike_sync", lambda: pyspike.filter_by_spike_sync([s1, s2], 0.0, max_tau=mt, MRTS=m))
    if p is not None:
        ka = set(float(x) for x in p[0].spikes)
        kb = set(float(x) for x in p[1].spikes)
        out["filter_by_spike_sync"] = ([1 if float(x) in ka else 0 for x in s1.spikes],
                                       [1 if float(x) in kb else 0 for x in s2.spikes])
    return out


@checker("rel_c16")
def chk_c16(rec, be):
    R = Runner(rec, be)
    a, b, ts, te = rec["a"], rec["b"], rec["ts"], rec["te"]
    # the third unit is tiny: a max_tau of 1e-12 is a bound like any other, not "no bound"
    for sg in (1.0, 2.0 ** 10, 2.0 ** -40):
        m, ri, mt = _kw(rec, sg)
        s1, s2 = train(a, ts, te, sg), train(b, ts, te, sg)
        if mt == 0:
            # None and 0 mean "no upper bound" and give identical results
            for name in ("spike_sync_profile", "spike_train_order_profile"):
                fn = getattr(pyspike, name)
                p = R.run(name, lambda: fn(s1, s2, max_tau=None, MRTS=m))
                q = R.run(name, lambda: fn(s1, s2, max_tau=0, MRTS=m))
                r = R.run(name, lambda: fn(s1, s2, MRTS=m))
                if p is not None and q is not None and r is not None:
                    if not (same_profile(ptuple(p), ptuple(q), sg) and same_profile(ptuple(p), ptuple(r), sg)):
                        R.bad(name, "s=%g: max_tau=None / 0 / omitted differ" % sg)
            for name in ("spike_sync", "spike_train_order", "spike_directionality"):
                fn = getattr(pyspike, name)
                kw = {} if name == "spike_sync" else {"normalize": False}
                p = R.run(name, lambda: fn(s1, s2, max_tau=None, MRTS=m, **kw))
                q = R.run(name, lambda: fn(s1, s2, max_tau=0, MRTS=m, **kw))
                if p is not None and q is not None and not close(p, q):
                    R.bad(name, "s=%g: max_tau=None gives %r, max_tau=0 gives %r" % (sg, p, q))
            p = R.run("filter_by_spike_sync", lambda: pyspike.filter_by_spike_sync([s1, s2], 0.0, max_tau=None, MRTS=m))
            q = R.run("filter_by_spike_sync", lambda: pyspike.filter_by_spike_sync([s1, s2], 0.0, max_tau=0, MRTS=m))
            if p is not None and q is not None:
                if any(list(u.spikes) != list(v.spikes) for u, v in zip(p, q)):
                    R.bad("filter_by_spike_sync", "s=%g: max_tau=None / 0 differ" % sg)
            continue
        marks = _marks(rec, s1, s2, m, mt, R)
        # no two spikes that are max_tau or more apart are ever counted as coincident
        for name, (ma, mb) in marks.items():
            for k, v in enumerate(ma):
                if v and not any(abs(float(a[k]) - float(y)) * sg < mt for y in b):
                    R.bad(name, "s=%g: spike a[%d]=%s marked coincident, no spike of b closer than max_tau=%g" % (
                        sg, k, a[k], mt / sg))
                    break
            for k, v in enumerate(mb):
                if v and not any(abs(float(b[k]) - float(y)) * sg < mt for y in a):
                    R.bad(name, "s=%g: spike b[%d]=%s marked coincident, no spike of a closer than max_tau=%g" % (
                        sg, k, b[k], mt / sg))
                    break
        # the bound is honoured through the averaging interval too: if no two spikes are closer than
        # max_tau, SPIKE-Sync over any interval counts no coincidence
        if a and b and not any(abs(float(x) - float(y)) * sg < mt for x in a for y in b):
            for iv in ((ts * sg, te * sg), ((ts + 0.5) * sg, (te - 0.5) * sg)):
                v = R.run("spike_sync", lambda: pyspike.spike_sync(s1, s2, interval=iv, max_tau=mt, MRTS=m))
                inside = [t for t in list(a) + list(b) if iv[0] < t * sg < iv[1]]
                if v is not None and inside and not close(v, 0.0):
                    R.bad("spike_sync", "s=%g interval=%s: no two spikes closer than max_tau=%g but SPIKE-Sync = %r" % (sg, iv, mt / sg, v))
                v = R.run("spike_sync_matrix", lambda: pyspike.spike_sync_matrix([s1, s2], interval=iv, max_tau=mt, MRTS=m))
                if v is not None and inside and not close(v[0][1], 0.0):
                    R.bad("spike_sync_matrix", "s=%g interval=%s: no two spikes closer than max_tau=%g but entry = %r" % (sg, iv, mt / sg, v[0][1]))
            # ... and through the list / index-selection forms of every coincidence-based function
            s3 = s2.copy()
            forms = [("spike_sync(list)", lambda: pyspike.spike_sync([s1, s2], max_tau=mt, MRTS=m)),
                     ("spike_sync(list, indices)", lambda: pyspike.spike_sync([s1, s2, s3], indices=[0, 1], max_tau=mt, MRTS=m)),
                     ("spike_train_order(list)", lambda: pyspike.spike_train_order([s1, s2], normalize=False, max_tau=mt, MRTS=m) if False else pyspike.spike_train_order([s1, s2], max_tau=mt, MRTS=m)),
                     ("spike_train_order(list, indices)", lambda: pyspike.spike_train_order([s1, s2, s3], indices=[0, 1], max_tau=mt, MRTS=m)),
                     ("spike_train_order(list, indices=[1,0])", lambda: pyspike.spike_train_order([s1, s2, s3], indices=[1, 0], max_tau=mt, MRTS=m))]
            for name, f in forms:
                v = R.run(name, f)
                if v is not None and not close(v, 0.0):
                    R.bad(name, "s=%g: no two spikes closer than max_tau=%g but the value is %r" % (sg, mt / sg, v))
            v = R.run("spike_directionality_matrix", lambda: pyspike.spike_directionality_matrix([s1, s2, s3], indices=[0, 1], normalize=False, max_tau=mt, MRTS=m))
            if v is not None and not np.allclose(np.asarray(v, float), 0.0):
                R.bad("spike_directionality_matrix", "s=%g: no two spikes closer than max_tau=%g but the matrix is %s" % (sg, mt / sg, np.asarray(v).tolist()))
            v = R.run("spike_sync_profile(list, indices)", lambda: pyspike.spike_sync_profile([s1, s2, s3], indices=[1, 0], max_tau=mt, MRTS=m))
            if v is not None and any(y != 0 and mpv < 2 for y, mpv in list(zip(v.y, v.mp))[1:-1]):
                R.bad("spike_sync_profile", "s=%g: no two spikes closer than max_tau=%g but the profile marks a coincidence: %s" % (sg, mt / sg, fl(v.y)))
        # enlarging max_tau never removes a coincidence (None = unbounded is the largest)
        bigger = sorted(set(float(fr([q, 4])) * sg for q in rec.get("_tauq", (0, 4)) if float(fr([q, 4])) * sg >= mt or q == 0))
        for mt2 in bigger:
            if mt2 == mt:
                continue
            marks2 = _marks(rec, s1, s2, m, mt2 if mt2 > 0 else None, R)
            for name in marks:
                if name not in marks2:
                    continue
                for side in (0, 1):
                    if any(u and not v for u, v in zip(marks[name][side], marks2[name][side])):
                        R.bad(name, "s=%g: coincidence removed when max_tau grows %g -> %s: %s -> %s" % (
                            sg, mt / sg, mt2 / sg if mt2 else None, marks[name], marks2[name]))
    return R.result()


# ------------------------------------------------------------------------------------- C12
def _eq_out(g, h, xscale=1.0):
    """two kernel outputs (tuples of arrays or a single array) agree up to rounding; nan = nan is NOT accepted"""
    if not isinstance(g, tuple):
        g, h = (g,), (h,)
    if len(g) != len(h):
        return False
    for k, (u, v) in enumerate(zip(g, h)):
        u, v = np.asarray(u, float), np.asarray(v, float)
        if u.shape != v.shape:
            return False
        sc = xscale if k == 0 else 1.0
        if not all(close(x, y, sc) for x, y in zip(u.ravel(), v.ravel())):
            return False
    return True


def _twin(R, name, fpy, fshim, args, xscale=1.0):
    st1, r1 = call(fpy, *args)
    st2, r2 = call(fshim, *args)
    R.n += 1
    if st1 != st2:
        R.bad(name, "python twin: %s %s; .pyx twin: %s %s" % (st1, r1 if st1 != "ok" else "", st2, r2 if st2 != "ok" else ""))
        return None, None
    if st1 != "ok":
        if st2 == "exc" and str(r2).startswith("COutOfBounds"):
            R.bad(name, ".pyx twin accesses memory out of bounds: %s" % r2)
        return None, None
    if not _eq_out(r1, r2, xscale):
        R.bad(name, "python twin returns %s, .pyx twin returns %s" % (
            [fl(np.asarray(x, float).ravel()) for x in (r1 if isinstance(r1, tuple) else (r1,))],
            [fl(np.asarray(x, float).ravel()) for x in (r2 if isinstance(r2, tuple) else (r2,))]))
    return r1, r2


@checker("twin_isi")
def chk_twin_isi(rec, be):
    R = Runner(dict(rec, mtau=[0, 1]), "py=pyx")
    a, b, ts, te = rec["a"], rec["b"], rec["ts"], rec["te"]
    m = float(fr(rec["mrts"]))
    for sg in (1.0, 2.0 ** -10):
        args = (nonempty(a, ts, te, sg), nonempty(b, ts, te, sg), ts * sg, te * sg, m * sg)
        r1, r2 = _twin(R, "isi_profile s=%g" % sg, PB.isi_distance_python, shim("cython_profiles", "isi_profile_cython"), args, sg)
        if r1 is None:
            continue
        x, y = np.asarray(r1[0], float), np.asarray(r1[1], float)
        avg = float(np.sum((x[1:] - x[:-1]) * y) / (x[-1] - x[0]))
        st, v = call(shim("cython_distances", "isi_distance_cython"), *args)
        R.n += 1
        if st != "ok":
            R.bad("isi_distance_cython s=%g" % sg, "raised %s" % v)
        elif not close(v, avg):
            R.bad("isi_distance_cython s=%g" % sg, "single-pass distance %r, average of the profile %r" % (v, avg), float(v), avg)
    return R.result()


@checker("twin_spike")
def chk_twin_spike(rec, be):
    R = Runner(dict(rec, mtau=[0, 1]), "py=pyx")
    a, b, ts, te = rec["a"], rec["b"], rec["ts"], rec["te"]
    m = float(fr(rec["mrts"]))
    ri = bool(rec["ri"])
    for sg in (1.0, 2.0 ** -10):
        args = (nonempty(a, ts, te, sg), nonempty(b, ts, te, sg), ts * sg, te * sg, m * sg, ri)
        r1, r2 = _twin(R, "spike_profile s=%g" % sg, PB.spike_distance_python, shim("cython_profiles", "spike_profile_cython"), args, sg)
        if r1 is None:
            continue
        x, y1, y2 = (np.asarray(v, float) for v in r1)
        avg = float(np.sum((x[1:] - x[:-1]) * 0.5 * (y1 + y2)) / (x[-1] - x[0]))
        st, v = call(shim("cython_distances", "spike_distance_cython"), *args)
        R.n += 1
        if st != "ok":
            R.bad("spike_distance_cython s=%g" % sg, "raised %s" % v)
        elif not close(v, avg):
            R.bad("spike_distance_cython s=%g" % sg, "single-pass distance %r, average of the profile %r" % (v, avg), float(v), avg)
    return R.result()


@checker("twin_sync")
def chk_twin_sync(rec, be):
    R = Runner(dict(rec, ri=None), "py=pyx")
    a, b, ts, te = rec["a"], rec["b"], rec["ts"], rec["te"]
    m = float(fr(rec["mrts"]))
    mt = float(fr(rec["mtau"]))
    # the third unit (0.1) is not exact in floats: ties are decided by rounding, and both twins must round alike
    for sg in (1.0, 2.0 ** 10, 0.1):
        A, B = arr(a, sg), arr(b, sg)
        args = (A, B, ts * sg, te * sg, mt * sg, m * sg)
        r1, _ = _twin(R, "coincidence_profile s=%g" % sg, PB.coincidence_python, shim("cython_profiles", "coincidence_profile_cython"), args, sg)
        _twin(R, "coincidence_single_profile s=%g" % sg, PB.coincidence_single_python, shim("cython_profiles", "coincidence_single_profile_cython"), args)
        _twin(R, "coincidence_single_profile(b,a) s=%g" % sg, PB.coincidence_single_python, shim("cython_profiles", "coincidence_single_profile_cython"),
              (B, A) + args[2:])
        o1, _ = _twin(R, "spike_train_order_profile s=%g" % sg, DPB.spike_train_order_profile_python,
                      shim("cython_directionality", "spike_train_order_profile_cython"), args, sg)
        d1, _ = _twin(R, "spike_directionality_profiles s=%g" % sg, DPB.spike_directionality_profile_python,
                      shim("cython_directionality", "spike_directionality_profiles_cython"), args)
        # single-pass value routines agree with the sums over the corresponding profile
        if r1 is not None:
            c, mp = np.asarray(r1[1], float), np.asarray(r1[2], float)
            e = (float(np.sum(c[1:-1])), float(np.sum(mp[1:-1])))
            st, v = call(shim("cython_distances", "coincidence_value_cython"), *args)
            R.n += 1
            if st != "ok":
                R.bad("coincidence_value_cython s=%g" % sg, "raised %s" % v)
            elif not (close(v[0], e[0]) and close(v[1], e[1])):
                R.bad("coincidence_value_cython s=%g" % sg, "single-pass (c, mp) = %s, sums over the profile %s" % (fl(v), e))
        if o1 is not None:
            c, mp = np.asarray(o1[1], float), np.asarray(o1[2], float)
            e = (float(np.sum(c[1:-1])), float(np.sum(mp[1:-1])))
            st, v = call(shim("cython_directionality", "spike_train_order_cython"), *args)
            R.n += 1
            if st != "ok":
                R.bad("spike_train_order_cython s=%g" % sg, "raised %s" % v)
            elif not (close(v[0], e[0]) and close(v[1], e[1])):
                R.bad("spike_train_order_cython s=%g" % sg, "single-pass (c, mp) = %s, sums over the profile %s" % (fl(v), e))
        if d1 is not None:
            e = float(np.sum(np.asarray(d1[0], float)))
            st, v = call(shim("cython_directionality", "spike_directionality_cython"), *args)
            R.n += 1
            if st != "ok":
                R.bad("spike_directionality_cython s=%g" % sg, "raised %s" % v)
            elif not close(v, e):
                R.bad("spike_directionality_cython s=%g" % sg, "single-pass value %r, sum of the profile %r" % (v, e))
        # the coincidence window itself, for every index pair the scans can ask for
        tm = (te - ts) * sg
        if mt > 0:
            tm = min(tm, 2 * mt * sg)
        gt = shim("cython_get_tau", "get_tau")
        for i in range(-1, len(a)):
            for j in range(-1, len(b)):
                if i < 0 and j < 0:
                    continue
                _twin(R, "get_tau(i=%d,j=%d) s=%g" % (i, j, sg), PB.get_tau, gt, (A, B, i, j, tm, m * sg))
    return R.result()


@checker("twin_api")
def chk_twin_api(rec, be):
    """every public bivariate function returns the same under the pure-Python fallback and with the
    (transliterated) compiled kernels importable"""
    R = Runner(rec, "py=pyx,api")
    a, b, ts, te = rec["a"], rec["b"], rec["ts"], rec["te"]
    m, ri, mt = _kw(rec)
    s1, s2 = train(a, ts, te), train(b, ts, te)
    fns = list(PROFILES.items()) + list(SCALARS.items()) + list(ORDER_SCALARS.items()) + [
        ("spike_train_order", lambda u, v, m_, ri_, mt_: pyspike.spike_train_order(u, v, max_tau=mt_, MRTS=m_)),
        ("spike_directionality_values", lambda u, v, m_, ri_, mt_: pyspike.spike_directionality_values(u, v, max_tau=mt_, MRTS=m_)),
        ("filter_by_spike_sync", lambda u, v, m_, ri_, mt_: pyspike.filter_by_spike_sync([u, v], 0.0, max_tau=mt_, MRTS=m_))]
    if len(a) > 0:
        fns.append(("spike_directionality", lambda u, v, m_, ri_, mt_: pyspike.spike_directionality(u, v, max_tau=mt_, MRTS=m_)))
    res = {}
    for cfg in ("py", "shim"):
        impl.set_backend(cfg)
        for name, f in fns:
            res[(cfg, name)] = R.run(name, f, s1, s2, m, ri, mt if mt > 0 else None)
    impl.set_backend("py")
    for name, f in fns:
        p, q = res[("py", name)], res[("shim", name)]
        if p is None or q is None:
            continue
        if name in PROFILES:
            ok = same_profile(ptuple(p), ptuple(q))
            sp, sq = pstr(ptuple(p)), pstr(ptuple(q))
        elif name == "spike_directionality_values":
            ok = len(p) == len(q) and all(same_arrays(u, v) for u, v in zip(p, q))
            sp, sq = [fl(u) for u in p], [fl(u) for u in q]
        elif name == "filter_by_spike_sync":
            ok = all(list(u.spikes) == list(v.spikes) for u, v in zip(p, q))
            sp, sq = [fl(u.spikes) for u in p], [fl(u.spikes) for u in q]
        else:
            ok = close(p, q)
            sp, sq = repr(p), repr(q)
        if not ok:
            R.bad(name, "pure-Python fallback gives %s, compiled configuration gives %s" % (sp, sq))
    return R.result()

---------------------------- MODULE FuncObjects ----------------------------
(* L3: a heap of function objects (PieceWiseConstFunc / PieceWiseLinFunc / DiscreteFunc) under
   add / mul_scalar / copy, with the three add routines transcribed from
   python_backend.py (add_piece_wise_const_python 487-530, add_piece_wise_lin_python 536-606,
   add_discrete_function_python 612-671; twins in cython_add.pyx): the three-branch merge loop,
   the two tail-copy branches, the simultaneous end, the edge fix-up of the discrete version.
   Every object carries a GHOST denotation: a linear combination of the base functions
   (coefficients gy for the values, gm for the multiplicities of discrete functions).
   Properties C09 / C11: the concrete arrays always represent the ghost combination.

   One record shape for all kinds:  [x, y1, y2]
     pwc : y1 = piece values, y2 = y1 (ignored)
     pwl : y1 = left limits of the pieces, y2 = right limits
     disc: y1 = values, y2 = multiplicities (as rationals n/1); Len(y1) = Len(x) *)
EXTENDS Integers, Sequences, FiniteSets, TLC, Rat, Defs, FuncOps, Json
CONSTANTS Kind, T0, T, MaxOps, NBase,
          Accu,       \* TRUE: object 3 starts as the zero function with a single piece (the accumulator idiom)
          ZeroBase    \* b > 0: base function b is identically zero but keeps its breakpoints (adding it must still merge them)
VARIABLES obj, gy, gm, bx, nops, op
vars == <<obj, gy, gm, bx, nops, op>>
View == <<obj, gy, gm, bx, nops>>      \* the last operation is an observation variable
Neg1 == -1
Neg2 == -2
Ids == 1..3
Bases == 1..NBase
\* generic piece values: distinct, mixed signs, some zeros, so that a mis-paired or dropped piece shows
GenY1(b, k) == IF b = ZeroBase \/ (b+k) % 4 = 0 THEN Zero ELSE Norm((IF k % 2 = 0 THEN 1 ELSE -1) * (5*b + 2*k + 1), 2*b+1)
GenY2(b, k) == IF b = ZeroBase THEN Zero ELSE Norm((IF (k+b) % 2 = 0 THEN 1 ELSE -1) * (3*b + 7*k + 2), b+2)
GenMp(b, k) == RI(1 + ((b + 2*k) % 3))
BaseFn(b, X) ==
   IF Kind = "disc"
   THEN \* interior entries generic; the two edge entries repeat their neighbours as in every profile
        LET n == Len(X)
            src(k) == IF n = 2 THEN k ELSE IF k = 1 THEN 2 ELSE IF k = n THEN n-1 ELSE k
        IN [x |-> X, y1 |-> [k \in 1..n |-> GenY1(b, src(k))], y2 |-> [k \in 1..n |-> GenMp(b, src(k))]]
   ELSE [x |-> X, y1 |-> [k \in 1..(Len(X)-1) |-> GenY1(b, k)],
         y2 |-> [k \in 1..(Len(X)-1) |-> IF Kind = "pwl" THEN GenY2(b, k) ELSE GenY1(b, k)]]
Null == [x |-> <<>>, y1 |-> <<>>, y2 |-> <<>>]
ZeroFn == IF Kind = "disc" THEN [x |-> <<T0, T>>, y1 |-> <<Zero, Zero>>, y2 |-> <<Zero, Zero>>]
          ELSE [x |-> <<T0, T>>, y1 |-> <<Zero>>, y2 |-> <<Zero>>]
Alloc(id) == obj[id].x # <<>>
NoOp == [f |-> "init", d |-> 0, s |-> 0, c |-> Zero, ss |-> <<>>]
----------------------------------------------------------------------------
AddFn(f, g) == AddK(Kind, f, g)
Scale(f, c) == ScaleK(Kind, f, c)
----------------------------------------------------------------------------
\* ---- denotations (FuncOps) against the ghost combination
Base(b) == BaseFn(b, bx[b])
Comb(id, t, right) ==
   RSum([b \in Bases |-> RMul(gy[id][b], IF right THEN RightLim(Base(b), t) ELSE LeftLim(Base(b), t))])
RepresentsCont(id) ==
   /\ obj[id].x[1] = T0 /\ obj[id].x[Len(obj[id].x)] = T
   /\ StrictlyIncreasing(obj[id].x)
   /\ Len(obj[id].y1) = Len(obj[id].x) - 1 /\ Len(obj[id].y2) = Len(obj[id].x) - 1
   /\ \A t \in T0..(T-1) : RightLim(obj[id], t) = Comb(id, t, TRUE)
   /\ \A t \in (T0+1)..T : LeftLim(obj[id], t) = Comb(id, t, FALSE)
   /\ (Kind = "pwc" => obj[id].y1 = obj[id].y2)
RepresentsDisc(id) ==
   LET f == obj[id] IN
   /\ f.x[1] = T0 /\ f.x[Len(f.x)] = T
   /\ Len(f.y1) = Len(f.x) /\ Len(f.y2) = Len(f.x)
   \* one entry per distinct event time, in increasing order (events may sit on the edge times)
   /\ \A k \in 2..(Len(f.x)-2) : f.x[k] < f.x[k+1]
   /\ \A k \in 1..(Len(f.x)-1) : f.x[k] <= f.x[k+1]
   /\ EvTimes(f) = UNION {EvTimes(Base(b)) : b \in {c \in Bases : gm[id][c] # Zero}}
   /\ \A t \in EvTimes(f) :
        /\ EvSum(f, t, 1) = RSum([b \in Bases |-> RMul(gy[id][b], EvSum(Base(b), t, 1))])
        /\ EvSum(f, t, 2) = RSum([b \in Bases |-> RMul(gm[id][b], EvSum(Base(b), t, 2))])
   \* the edge entries frame the events: the first one repeats the first event (lines 666-667)
   /\ (Len(f.x) > 2 => (f.y1[1] = f.y1[2] /\ f.y2[1] = f.y2[2]))
Represents == \A id \in Ids : Alloc(id) => IF Kind = "disc" THEN RepresentsDisc(id) ELSE RepresentsCont(id)
\* exact integral of the denotation; linear in the ghost coefficients (C09: integral is the combination)
Integral(f) == RSum([k \in 1..Len(f.y1) |-> RMul(RI(f.x[k+1]-f.x[k]), RMul(Half, RAdd(f.y1[k], f.y2[k])))])
IntegralLinear == Kind # "disc" => \A id \in Ids : Alloc(id) =>
   Integral(obj[id]) = RSum([b \in Bases |-> RMul(gy[id][b], Integral(Base(b)))])
----------------------------------------------------------------------------
\* ---- the heap
XSets ==
   IF Kind = "disc"
   THEN { <<T0>> \o e0 \o SortedSeq(S) \o e1 \o <<T>> :
             S \in SUBSET ((T0+1)..(T-1)), e0 \in {<<>>, <<T0>>}, e1 \in {<<>>, <<T>>} }
   ELSE { SortedSeq({T0,T} \cup S) : S \in SUBSET ((T0+1)..(T-1)) }
Unit(b) == [c \in Bases |-> IF c = b THEN One ELSE Zero]
Init == /\ bx \in [Bases -> XSets]
        /\ obj = [id \in Ids |-> IF id <= NBase THEN BaseFn(id, bx[id]) ELSE IF Accu THEN ZeroFn ELSE Null]
        /\ gy = [id \in Ids |-> IF id <= NBase THEN Unit(id) ELSE [c \in Bases |-> Zero]]
        /\ gm = [id \in Ids |-> IF id <= NBase THEN Unit(id) ELSE [c \in Bases |-> Zero]]
        /\ nops = 0 /\ op = NoOp
\* d.add(s)   (s = d is allowed: a function added to itself)
Add(d, s) == /\ Alloc(d) /\ Alloc(s) /\ nops < MaxOps
             /\ obj' = [obj EXCEPT ![d] = AddFn(obj[d], obj[s])]
             /\ gy' = [gy EXCEPT ![d] = [b \in Bases |-> RAdd(gy[d][b], gy[s][b])]]
             /\ gm' = [gm EXCEPT ![d] = [b \in Bases |-> RAdd(gm[d][b], gm[s][b])]]
             /\ nops' = nops + 1 /\ op' = [f |-> "add", d |-> d, s |-> s, c |-> Zero, ss |-> <<>>] /\ UNCHANGED bx
Mul(d, c) == /\ Alloc(d) /\ nops < MaxOps
             /\ obj' = [obj EXCEPT ![d] = Scale(obj[d], c)]
             /\ gy' = [gy EXCEPT ![d] = [b \in Bases |-> RMul(gy[d][b], c)]]
             /\ nops' = nops + 1 /\ op' = [f |-> "mul", d |-> d, s |-> 0, c |-> c, ss |-> <<>>] /\ UNCHANGED <<bx, gm>>
\* d = s.copy()
Copy(d, s) == /\ Alloc(s) /\ d # s /\ nops < MaxOps
              /\ obj' = [obj EXCEPT ![d] = obj[s]] /\ gy' = [gy EXCEPT ![d] = gy[s]] /\ gm' = [gm EXCEPT ![d] = gm[s]]
              /\ nops' = nops + 1 /\ op' = [f |-> "copy", d |-> d, s |-> s, c |-> Zero, ss |-> <<>>] /\ UNCHANGED bx
\* d = average_profile([objects of S in index order])  (DiscreteFunc.py:229-247): copy of the first,
\* add the others, scale by 1/n; only defined for pwc / pwl profiles
RECURSIVE FoldAdd(_,_)
FoldAdd(seq, acc) == IF Len(seq) = 0 THEN acc ELSE FoldAdd(Tail(seq), AddFn(acc, obj[seq[1]]))
Average(d, S) ==
   LET seq == SortedSeq(S)  n == Len(seq) IN
   /\ Kind # "disc" /\ n >= 2 /\ \A i \in S : Alloc(i) /\ nops < MaxOps
   /\ obj' = [obj EXCEPT ![d] = Scale(FoldAdd(Tail(seq), obj[seq[1]]), <<1, n>>)]
   /\ gy' = [gy EXCEPT ![d] = [b \in Bases |-> RDiv(RSum([k \in 1..n |-> gy[seq[k]][b]]), RI(n))]]
   /\ nops' = nops + 1 /\ op' = [f |-> "avg", d |-> d, s |-> 0, c |-> Zero, ss |-> seq] /\ UNCHANGED <<bx, gm>>
Next == \/ \E d, s \in Ids : Add(d, s)
        \/ \E d \in Ids, S \in SUBSET Ids : Average(d, S)
        \/ \E d \in Ids, c \in {<<2,1>>, <<-1,2>>} : Mul(d, c)
        \/ \E d, s \in Ids : Copy(d, s)
Spec == Init /\ [][Next]_vars
----------------------------------------------------------------------------
XSet(f) == {f.x[k] : k \in 1..Len(f.x)}
\* the breakpoints of a sum are the union of the operands' breakpoints
XIsUnion == [][\A d, s \in Ids : (op'.f = "add" /\ op'.d = d /\ op'.s = s) =>
                 XSet(obj'[d]) = XSet(obj[d]) \cup XSet(obj[s])]_vars
\* the added operand is never modified; nothing but the receiver changes
OnlyReceiverChanges == [][\A id \in Ids : id # op'.d => obj'[id] = obj[id]]_vars
\* adding in the opposite order gives the same function (exact arithmetic)
Commutes == [][\A d, s \in Ids : (op'.f = "add" /\ op'.d = d /\ op'.s = s /\ d # s) =>
                 AddFn(obj[s], obj[d]) = obj'[d]]_vars
\* export of every transition (pre-heap, operation, post-heap) through an action constraint
TransExport == PrintT(ToJson([k |-> "trans", kind |-> Kind, pre |-> obj, op |-> op', post |-> obj']))
=============================================================================

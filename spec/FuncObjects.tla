---------------------------- MODULE FuncObjects ----------------------------
(* L3: a heap of function objects (PieceWiseConstFunc / PieceWiseLinFunc / DiscreteFunc) under
   add / mul_scalar / copy, with the three add routines transcribed from
   python_backend.py (add_piece_wise_const_python 487-530, add_piece_wise_lin_python 536-606,
   add_discrete_function_python 612-671; twins in cython_add.pyx): the three-branch merge loop,
   the two tail-copy branches, the simultaneous end, the edge fix-up of the discrete version.
   Every object carries a GHOST denotation: a linear combination of the base functions
   (coefficients gy for the values, gm for the multiplicities of discrete functions).
   Properties C09 / C11: the concrete arrays always represent the ghost combination.

   One record shape for all kinds:  [x, y1, y2]
     pwc : y1 = piece values, y2 = y1 (ignored)
     pwl : y1 = left limits of the pieces, y2 = right limits
     disc: y1 = values, y2 = multiplicities (as rationals n/1); Len(y1) = Len(x) *)
EXTENDS Integers, Sequences, FiniteSets, TLC, Rat, Defs, Json
CONSTANTS Kind, T0, T, MaxOps, NBase
VARIABLES obj, gy, gm, bx, nops, op
vars == <<obj, gy, gm, bx, nops, op>>
View == <<obj, gy, gm, bx, nops>>      \* the last operation is an observation variable
Neg1 == -1
Neg2 == -2
Ids == 1..3
Bases == 1..NBase
\* generic piece values: distinct, mixed signs, some zeros, so that a mis-paired or dropped piece shows
GenY1(b, k) == IF (b+k) % 4 = 0 THEN Zero ELSE Norm((IF k % 2 = 0 THEN 1 ELSE -1) * (5*b + 2*k + 1), 2*b+1)
GenY2(b, k) == Norm((IF (k+b) % 2 = 0 THEN 1 ELSE -1) * (3*b + 7*k + 2), b+2)
GenMp(b, k) == RI(1 + ((b + 2*k) % 3))
BaseFn(b, X) ==
   IF Kind = "disc"
   THEN \* interior entries generic; the two edge entries repeat their neighbours as in every profile
        LET n == Len(X)
            src(k) == IF n = 2 THEN k ELSE IF k = 1 THEN 2 ELSE IF k = n THEN n-1 ELSE k
        IN [x |-> X, y1 |-> [k \in 1..n |-> GenY1(b, src(k))], y2 |-> [k \in 1..n |-> GenMp(b, src(k))]]
   ELSE [x |-> X, y1 |-> [k \in 1..(Len(X)-1) |-> GenY1(b, k)],
         y2 |-> [k \in 1..(Len(X)-1) |-> IF Kind = "pwl" THEN GenY2(b, k) ELSE GenY1(b, k)]]
Null == [x |-> <<>>, y1 |-> <<>>, y2 |-> <<>>]
Alloc(id) == obj[id].x # <<>>
NoOp == [f |-> "init", d |-> 0, s |-> 0, c |-> Zero]
----------------------------------------------------------------------------
\* ---- add_piece_wise_const_python; cursors 0-based as in the code
RECURSIVE PwcLoop(_,_,_,_,_,_)
PwcLoop(f, g, i1, i2, X, Y) ==
   IF (i1+1 < Len(f.y1)) /\ (i2+1 < Len(g.y1)) THEN
      LET u == f.x[i1+2]  v == g.x[i2+2]
          j1 == IF u <= v THEN i1+1 ELSE i1
          j2 == IF v <= u THEN i2+1 ELSE i2
      IN PwcLoop(f, g, j1, j2, Append(X, IF u <= v THEN u ELSE v), Append(Y, RAdd(f.y1[j1+1], g.y1[j2+1])))
   ELSE IF i1+1 < Len(f.y1) THEN
      [x |-> X \o SubSeq(f.x, i1+2, Len(f.x)),
       y |-> Y \o [k \in 1..(Len(f.y1)-i1-1) |-> RAdd(f.y1[i1+1+k], g.y1[Len(g.y1)])]]
   ELSE IF i2+1 < Len(g.y1) THEN
      [x |-> X \o SubSeq(g.x, i2+2, Len(g.x)),
       y |-> Y \o [k \in 1..(Len(g.y1)-i2-1) |-> RAdd(g.y1[i2+1+k], f.y1[Len(f.y1)])]]
   ELSE [x |-> Append(X, f.x[Len(f.x)]), y |-> Y]
PwcAdd(f, g) == LET r == PwcLoop(f, g, 0, 0, <<f.x[1]>>, <<RAdd(f.y1[1], g.y1[1])>>)
                IN [x |-> r.x, y1 |-> r.y, y2 |-> r.y]
\* ---- add_piece_wise_lin_python
Interp(g, i2, xv) == RAdd(g.y1[i2+1], RDiv(RMul(RSub(g.y2[i2+1], g.y1[i2+1]), RI(xv - g.x[i2+1])), RI(g.x[i2+2] - g.x[i2+1])))
RECURSIVE PwlLoop(_,_,_,_,_,_,_)
PwlLoop(f, g, i1, i2, X, Y1, Y2) ==
   IF (i1+1 < Len(f.y1)) /\ (i2+1 < Len(g.y1)) THEN
      LET u == f.x[i1+2]  v == g.x[i2+2] IN
      IF u < v THEN LET y == Interp(g, i2, u) IN
           PwlLoop(f, g, i1+1, i2, Append(X,u), Append(Y1, RAdd(f.y1[i1+2], y)), Append(Y2, RAdd(f.y2[i1+1], y)))
      ELSE IF u > v THEN LET y == Interp(f, i1, v) IN
           PwlLoop(f, g, i1, i2+1, Append(X,v), Append(Y1, RAdd(g.y1[i2+2], y)), Append(Y2, RAdd(g.y2[i2+1], y)))
      ELSE PwlLoop(f, g, i1+1, i2+1, Append(X,u), Append(Y1, RAdd(f.y1[i1+2], g.y1[i2+2])), Append(Y2, RAdd(f.y2[i1+1], g.y2[i2+1])))
   ELSE
      LET fin == RAdd(f.y2[Len(f.y2)], g.y2[Len(g.y2)]) IN
      IF i1+1 < Len(f.y1) THEN
         LET m == Len(f.y1) - i1 - 1
             ys == [k \in 1..m |-> Interp(g, i2, f.x[i1+1+k])] IN
         [x |-> X \o SubSeq(f.x, i1+2, Len(f.x)),
          y1 |-> Y1 \o [k \in 1..m |-> RAdd(f.y1[i1+1+k], ys[k])],
          y2 |-> Append(Y2 \o [k \in 1..m |-> RAdd(f.y2[i1+k], ys[k])], fin)]
      ELSE IF i2+1 < Len(g.y1) THEN
         LET m == Len(g.y1) - i2 - 1
             ys == [k \in 1..m |-> Interp(f, i1, g.x[i2+1+k])] IN
         [x |-> X \o SubSeq(g.x, i2+2, Len(g.x)),
          y1 |-> Y1 \o [k \in 1..m |-> RAdd(g.y1[i2+1+k], ys[k])],
          y2 |-> Append(Y2 \o [k \in 1..m |-> RAdd(g.y2[i2+k], ys[k])], fin)]
      ELSE [x |-> Append(X, f.x[Len(f.x)]), y1 |-> Y1, y2 |-> Append(Y2, fin)]
PwlAdd(f, g) == PwlLoop(f, g, 0, 0, <<f.x[1]>>, <<RAdd(f.y1[1], g.y1[1])>>, <<>>)
\* ---- add_discrete_function_python: N = index of the last (edge) entry; X, Y, M hold entries 0..index
RECURSIVE DiscLoop(_,_,_,_,_,_,_)
DiscLoop(f, g, i1, i2, X, Y, M) ==
   LET N1 == Len(f.x)-1  N2 == Len(g.x)-1 IN
   IF (i1+1 < N1) /\ (i2+1 < N2) THEN
      LET u == f.x[i1+2]  v == g.x[i2+2] IN
      IF u < v THEN DiscLoop(f, g, i1+1, i2, Append(X,u), Append(Y, f.y1[i1+2]), Append(M, f.y2[i1+2]))
      ELSE IF u > v THEN DiscLoop(f, g, i1, i2+1, Append(X,v), Append(Y, g.y1[i2+2]), Append(M, g.y2[i2+2]))
      ELSE DiscLoop(f, g, i1+1, i2+1, Append(X,u), Append(Y, RAdd(f.y1[i1+2], g.y1[i2+2])), Append(M, RAdd(f.y2[i1+2], g.y2[i2+2])))
   ELSE IF i1+1 < N1 THEN
      [x |-> X \o SubSeq(f.x, i1+2, Len(f.x)), y |-> Y \o SubSeq(f.y1, i1+2, Len(f.x)), m |-> M \o SubSeq(f.y2, i1+2, Len(f.x))]
   ELSE IF i2+1 < N2 THEN
      [x |-> X \o SubSeq(g.x, i2+2, Len(g.x)), y |-> Y \o SubSeq(g.y1, i2+2, Len(g.x)), m |-> M \o SubSeq(g.y2, i2+2, Len(g.x))]
   ELSE [x |-> Append(X, f.x[Len(f.x)]), y |-> Append(Y, RAdd(f.y1[Len(f.x)], g.y1[Len(g.x)])),
         m |-> Append(M, RAdd(f.y2[Len(f.x)], g.y2[Len(g.x)]))]
DiscAdd(f, g) ==
   \* entry 0 is a placeholder that the edge fix-up overwrites with entry 1 (lines 666-667)
   LET r == DiscLoop(f, g, 0, 0, <<f.x[1]>>, <<Zero>>, <<Zero>>) IN
   [x |-> r.x, y1 |-> [r.y EXCEPT ![1] = r.y[2]], y2 |-> [r.m EXCEPT ![1] = r.m[2]]]
AddFn(f, g) == IF Kind = "pwc" THEN PwcAdd(f, g) ELSE IF Kind = "pwl" THEN PwlAdd(f, g) ELSE DiscAdd(f, g)
\* mul_scalar: values only (DiscreteFunc keeps its multiplicities)
Scale(f, c) == [x |-> f.x, y1 |-> [k \in 1..Len(f.y1) |-> RMul(f.y1[k], c)],
                y2 |-> IF Kind = "pwl" THEN [k \in 1..Len(f.y2) |-> RMul(f.y2[k], c)]
                       ELSE IF Kind = "pwc" THEN [k \in 1..Len(f.y1) |-> RMul(f.y1[k], c)] ELSE f.y2]
----------------------------------------------------------------------------
\* ---- denotations
PieceR(f, t) == CHOOSE k \in 1..Len(f.y1) : f.x[k] <= t /\ t < f.x[k+1]
PieceL(f, t) == CHOOSE k \in 1..Len(f.y1) : f.x[k] < t /\ t <= f.x[k+1]
ValIn(f, k, t) == RAdd(f.y1[k], RDiv(RMul(RSub(f.y2[k], f.y1[k]), RI(t - f.x[k])), RI(f.x[k+1] - f.x[k])))
RightLim(f, t) == ValIn(f, PieceR(f,t), t)
LeftLim(f, t) == ValIn(f, PieceL(f,t), t)
Base(b) == BaseFn(b, bx[b])
Comb(id, t, right) ==
   RSum([b \in Bases |-> RMul(gy[id][b], IF right THEN RightLim(Base(b), t) ELSE LeftLim(Base(b), t))])
\* discrete: value / multiplicity carried by the interior events at time t (entries 2..Len-1)
EvSum(f, t, which) ==
   RSum([k \in 1..Len(f.x) |-> IF k > 1 /\ k < Len(f.x) /\ f.x[k] = t THEN (IF which = 1 THEN f.y1[k] ELSE f.y2[k]) ELSE Zero])
EvTimes(f) == {f.x[k] : k \in 2..(Len(f.x)-1)}
StrictlyIncreasing(x) == \A k \in 1..(Len(x)-1) : x[k] < x[k+1]
RepresentsCont(id) ==
   /\ obj[id].x[1] = T0 /\ obj[id].x[Len(obj[id].x)] = T
   /\ StrictlyIncreasing(obj[id].x)
   /\ Len(obj[id].y1) = Len(obj[id].x) - 1 /\ Len(obj[id].y2) = Len(obj[id].x) - 1
   /\ \A t \in T0..(T-1) : RightLim(obj[id], t) = Comb(id, t, TRUE)
   /\ \A t \in (T0+1)..T : LeftLim(obj[id], t) = Comb(id, t, FALSE)
   /\ (Kind = "pwc" => obj[id].y1 = obj[id].y2)
RepresentsDisc(id) ==
   LET f == obj[id] IN
   /\ f.x[1] = T0 /\ f.x[Len(f.x)] = T
   /\ Len(f.y1) = Len(f.x) /\ Len(f.y2) = Len(f.x)
   \* one entry per distinct event time, in increasing order (events may sit on the edge times)
   /\ \A k \in 2..(Len(f.x)-2) : f.x[k] < f.x[k+1]
   /\ \A k \in 1..(Len(f.x)-1) : f.x[k] <= f.x[k+1]
   /\ EvTimes(f) = UNION {EvTimes(Base(b)) : b \in {c \in Bases : gm[id][c] # Zero}}
   /\ \A t \in EvTimes(f) :
        /\ EvSum(f, t, 1) = RSum([b \in Bases |-> RMul(gy[id][b], EvSum(Base(b), t, 1))])
        /\ EvSum(f, t, 2) = RSum([b \in Bases |-> RMul(gm[id][b], EvSum(Base(b), t, 2))])
   \* the edge entries frame the events: the first one repeats the first event (lines 666-667)
   /\ (Len(f.x) > 2 => (f.y1[1] = f.y1[2] /\ f.y2[1] = f.y2[2]))
Represents == \A id \in Ids : Alloc(id) => IF Kind = "disc" THEN RepresentsDisc(id) ELSE RepresentsCont(id)
\* exact integral of the denotation; linear in the ghost coefficients (C09: integral is the combination)
Integral(f) == RSum([k \in 1..Len(f.y1) |-> RMul(RI(f.x[k+1]-f.x[k]), RMul(Half, RAdd(f.y1[k], f.y2[k])))])
IntegralLinear == Kind # "disc" => \A id \in Ids : Alloc(id) =>
   Integral(obj[id]) = RSum([b \in Bases |-> RMul(gy[id][b], Integral(Base(b)))])
----------------------------------------------------------------------------
\* ---- the heap
XSets ==
   IF Kind = "disc"
   THEN { <<T0>> \o e0 \o SortedSeq(S) \o e1 \o <<T>> :
             S \in SUBSET ((T0+1)..(T-1)), e0 \in {<<>>, <<T0>>}, e1 \in {<<>>, <<T>>} }
   ELSE { SortedSeq({T0,T} \cup S) : S \in SUBSET ((T0+1)..(T-1)) }
Unit(b) == [c \in Bases |-> IF c = b THEN One ELSE Zero]
Init == /\ bx \in [Bases -> XSets]
        /\ obj = [id \in Ids |-> IF id <= NBase THEN BaseFn(id, bx[id]) ELSE Null]
        /\ gy = [id \in Ids |-> IF id <= NBase THEN Unit(id) ELSE [c \in Bases |-> Zero]]
        /\ gm = [id \in Ids |-> IF id <= NBase THEN Unit(id) ELSE [c \in Bases |-> Zero]]
        /\ nops = 0 /\ op = NoOp
\* d.add(s)   (s = d is allowed: a function added to itself)
Add(d, s) == /\ Alloc(d) /\ Alloc(s) /\ nops < MaxOps
             /\ obj' = [obj EXCEPT ![d] = AddFn(obj[d], obj[s])]
             /\ gy' = [gy EXCEPT ![d] = [b \in Bases |-> RAdd(gy[d][b], gy[s][b])]]
             /\ gm' = [gm EXCEPT ![d] = [b \in Bases |-> RAdd(gm[d][b], gm[s][b])]]
             /\ nops' = nops + 1 /\ op' = [f |-> "add", d |-> d, s |-> s, c |-> Zero] /\ UNCHANGED bx
Mul(d, c) == /\ Alloc(d) /\ nops < MaxOps
             /\ obj' = [obj EXCEPT ![d] = Scale(obj[d], c)]
             /\ gy' = [gy EXCEPT ![d] = [b \in Bases |-> RMul(gy[d][b], c)]]
             /\ nops' = nops + 1 /\ op' = [f |-> "mul", d |-> d, s |-> 0, c |-> c] /\ UNCHANGED <<bx, gm>>
\* d = s.copy()
Copy(d, s) == /\ Alloc(s) /\ d # s /\ nops < MaxOps
              /\ obj' = [obj EXCEPT ![d] = obj[s]] /\ gy' = [gy EXCEPT ![d] = gy[s]] /\ gm' = [gm EXCEPT ![d] = gm[s]]
              /\ nops' = nops + 1 /\ op' = [f |-> "copy", d |-> d, s |-> s, c |-> Zero] /\ UNCHANGED bx
Next == \/ \E d, s \in Ids : Add(d, s)
        \/ \E d \in Ids, c \in {<<2,1>>, <<-1,2>>} : Mul(d, c)
        \/ \E d, s \in Ids : Copy(d, s)
Spec == Init /\ [][Next]_vars
----------------------------------------------------------------------------
XSet(f) == {f.x[k] : k \in 1..Len(f.x)}
\* the breakpoints of a sum are the union of the operands' breakpoints
XIsUnion == [][\A d, s \in Ids : (op'.f = "add" /\ op'.d = d /\ op'.s = s) =>
                 XSet(obj'[d]) = XSet(obj[d]) \cup XSet(obj[s])]_vars
\* the added operand is never modified; nothing but the receiver changes
OnlyReceiverChanges == [][\A id \in Ids : id # op'.d => obj'[id] = obj[id]]_vars
\* adding in the opposite order gives the same function (exact arithmetic)
Commutes == [][\A d, s \in Ids : (op'.f = "add" /\ op'.d = d /\ op'.s = s /\ d # s) =>
                 AddFn(obj[s], obj[d]) = obj'[d]]_vars
\* export of every transition (pre-heap, operation, post-heap) through an action constraint
TransExport == PrintT(ToJson([k |-> "trans", kind |-> Kind, pre |-> obj, op |-> op', post |-> obj']))
=============================================================================

----------------------------- MODULE Relations -----------------------------
(* L1 relations between the declarative definitions (no algorithm involved): the axioms and
   invariances that properties C07, C08, C15 and C16 state, model-checked for every ordered pair of
   trains on the grid and every keyword setting.  The state machine only enumerates the cases
   (Init fixes the first train, Pick the rest); each TLC state with pc = "rel" is one case that the
   harness afterwards executes on the implementation under the same transformations. *)
EXTENDS Integers, Sequences, FiniteSets, TLC, Rat, Defs, Json
CONSTANTS TS, TE, MaxSp,
          MRTSQ,      \* MRTS numerators (quarters)
          TauQ,       \* max_tau numerators (quarters), 0 = None
          RISet,
          ShiftsP,    \* time shifts + 5 (a cfg file cannot hold negative numbers)
          Scales      \* positive integer scale factors
VARIABLES a, b, mrts, mtau, ri, pc
vars == <<a, b, mrts, mtau, ri, pc>>
Neg1 == -1
Neg2 == -2
Neg3 == -3
Grid == TS..TE
Trains == { SortedSeq(S) : S \in {Q \in SUBSET Grid : Cardinality(Q) <= MaxSp} }
MRTSSet == {Norm(n,4) : n \in MRTSQ}
TauSet == {Norm(n,4) : n \in TauQ}
Shifts == {k - 5 : k \in ShiftsP}
Init == a \in Trains /\ b = <<>> /\ mrts = Zero /\ mtau = Zero /\ ri = FALSE /\ pc = "pick"
Pick == /\ pc = "pick"
        /\ b' \in Trains /\ mrts' \in MRTSSet /\ mtau' \in TauSet /\ ri' \in RISet
        /\ pc' = "rel" /\ UNCHANGED a
Next == Pick
Spec == Init /\ [][Next]_vars
Case == pc = "rel"
----------------------------------------------------------------------------
Isi(x, y, ts, te, m) == IsiDef(x, y, ts, te, m)
Spk(x, y, ts, te, m) == SpikeDef(x, y, ts, te, m, ri)
Syn(x, y, ts, te, t, m) == SyncDef(x, y, ts, te, t, m)
Ord(x, y, ts, te, t, m) == OrderDef(x, y, ts, te, t, m)
Dir(x, y, ts, te, t, m) == DirDef(x, y, ts, te, t, m)
AllZero(s) == \A k \in 1..Len(s) : s[k] = Zero
(***************************************************************************)
(* C07  symmetry, identity, range                                          *)
(***************************************************************************)
Symmetric == Case =>
   /\ Isi(b, a, TS, TE, mrts) = Isi(a, b, TS, TE, mrts)
   /\ Spk(b, a, TS, TE, mrts) = Spk(a, b, TS, TE, mrts)
   /\ Syn(b, a, TS, TE, mtau, mrts) = Syn(a, b, TS, TE, mtau, mrts)
Identity == Case =>
   /\ AllZero(Isi(a, a, TS, TE, mrts).y)
   /\ AllZero(Spk(a, a, TS, TE, mrts).y1) /\ AllZero(Spk(a, a, TS, TE, mrts).y2)
   /\ LET s == Syn(a, a, TS, TE, mtau, mrts) IN s.y = s.mp           \* every spike coincident: value 1
   /\ ISum(Dir(a, a, TS, TE, mtau, mrts).d1) = 0
InRange == Case =>
   /\ \A k \in 1..Len(Isi(a, b, TS, TE, mrts).y) : RInUnit(Isi(a, b, TS, TE, mrts).y[k])
   /\ LET s == Spk(a, b, TS, TE, mrts) IN \A k \in 1..Len(s.y1) : RInUnit(s.y1[k]) /\ RInUnit(s.y2[k])
   /\ LET s == Syn(a, b, TS, TE, mtau, mrts) IN \A k \in 1..Len(s.y) : 0 <= s.y[k] /\ s.y[k] <= s.mp[k]
   /\ LET o == Ord(a, b, TS, TE, mtau, mrts) IN \A k \in 1..Len(o.y) : -1 <= o.y[k] /\ o.y[k] <= 1
(***************************************************************************)
(* C08  shift, scale, mirror                                               *)
(***************************************************************************)
ShiftT(s, k) == [n \in 1..Len(s) |-> s[n] + k]
ScaleT(s, f) == [n \in 1..Len(s) |-> s[n] * f]
Rev(s) == [n \in 1..Len(s) |-> s[Len(s)+1-n]]
MirrorT(s, ts, te) == [n \in 1..Len(s) |-> ts + te - s[Len(s)+1-n]]
NegSeq(s) == [n \in 1..Len(s) |-> -s[n]]
Interior(s) == SubSeq(s, 2, Len(s)-1)
ShiftInv == Case => \A k \in Shifts :
   LET a2 == ShiftT(a, k)  b2 == ShiftT(b, k)  ts2 == TS+k  te2 == TE+k IN
   /\ LET p == Isi(a, b, TS, TE, mrts)  q == Isi(a2, b2, ts2, te2, mrts) IN q.x = ShiftT(p.x, k) /\ q.y = p.y
   /\ LET p == Spk(a, b, TS, TE, mrts)  q == Spk(a2, b2, ts2, te2, mrts) IN
         q.x = ShiftT(p.x, k) /\ q.y1 = p.y1 /\ q.y2 = p.y2
   /\ LET p == Syn(a, b, TS, TE, mtau, mrts)  q == Syn(a2, b2, ts2, te2, mtau, mrts) IN
         q.x = ShiftT(p.x, k) /\ q.y = p.y /\ q.mp = p.mp
   /\ LET p == Ord(a, b, TS, TE, mtau, mrts)  q == Ord(a2, b2, ts2, te2, mtau, mrts) IN
         q.x = ShiftT(p.x, k) /\ q.y = p.y /\ q.mp = p.mp
ScaleInv == Case => \A f \in Scales :
   LET a2 == ScaleT(a, f)  b2 == ScaleT(b, f)  ts2 == TS*f  te2 == TE*f
       m2 == RMul(mrts, RI(f))  t2 == RMul(mtau, RI(f)) IN
   /\ LET p == Isi(a, b, TS, TE, mrts)  q == Isi(a2, b2, ts2, te2, m2) IN q.x = ScaleT(p.x, f) /\ q.y = p.y
   /\ LET p == Spk(a, b, TS, TE, mrts)  q == Spk(a2, b2, ts2, te2, m2) IN
         q.x = ScaleT(p.x, f) /\ q.y1 = p.y1 /\ q.y2 = p.y2
   /\ LET p == Syn(a, b, TS, TE, mtau, mrts)  q == Syn(a2, b2, ts2, te2, t2, m2) IN
         q.x = ScaleT(p.x, f) /\ q.y = p.y /\ q.mp = p.mp
   /\ LET p == Ord(a, b, TS, TE, mtau, mrts)  q == Ord(a2, b2, ts2, te2, t2, m2) IN
         q.x = ScaleT(p.x, f) /\ q.y = p.y /\ q.mp = p.mp
\* reflection about the midpoint: left and right limits exchanged; order negated (edge entries never count)
MirrorSym == Case =>
   LET a2 == MirrorT(a, TS, TE)  b2 == MirrorT(b, TS, TE) IN
   /\ LET p == Isi(a, b, TS, TE, mrts)  q == Isi(a2, b2, TS, TE, mrts) IN
         q.x = MirrorT(p.x, TS, TE) /\ q.y = Rev(p.y)
   /\ LET p == Spk(a, b, TS, TE, mrts)  q == Spk(a2, b2, TS, TE, mrts) IN
         q.x = MirrorT(p.x, TS, TE) /\ q.y1 = Rev(p.y2) /\ q.y2 = Rev(p.y1)
   /\ LET p == Syn(a, b, TS, TE, mtau, mrts)  q == Syn(a2, b2, TS, TE, mtau, mrts) IN
         q.x = MirrorT(p.x, TS, TE) /\ q.y = Rev(p.y) /\ q.mp = Rev(p.mp)
   /\ LET p == Ord(a, b, TS, TE, mtau, mrts)  q == Ord(a2, b2, TS, TE, mtau, mrts) IN
         q.x = MirrorT(p.x, TS, TE) /\ Interior(q.y) = NegSeq(Rev(Interior(p.y))) /\ q.mp = Rev(p.mp)
(***************************************************************************)
(* C15  MRTS only de-emphasises small time scales                          *)
(***************************************************************************)
\* the non-adaptive measures written without any MRTS term
PlainDist(i1, i2, s1, s2) ==
   LET mean == RDiv(RI(i1+i2), RI(2)) IN
   IF ri THEN RDiv(RDiv(RAdd(s1,s2), RI(2)), mean)
   ELSE RDiv(RDiv(RAdd(RMul(s1,RI(i2)), RMul(s2,RI(i1))), RI(2)), RMul(mean,mean))
PlainTau(x, y, i, j) ==
   LET L == MissingLen(TS, TE, mtau)
       s == {IF i < Len(x) THEN RI(x[i+1]-x[i]) ELSE L, IF i > 1 THEN RI(x[i]-x[i-1]) ELSE L,
             IF j < Len(y) THEN RI(y[j+1]-y[j]) ELSE L, IF j > 1 THEN RI(y[j]-y[j-1]) ELSE L}
       mn == CHOOSE u \in s : \A v \in s : RLe(u, v)
       w == RDiv(mn, RI(2))
   IN IF RLt(Zero, mtau) THEN RMin(w, mtau) ELSE w
ZeroIsPlain == Case =>
   /\ \A i1, i2 \in 1..3 : \A n1, n2 \in 0..2 :
         DistAtT(i1, i2, RI(n1), RI(n2), Zero, ri) = PlainDist(i1, i2, RI(n1), RI(n2))
   /\ \A i \in 1..Len(a), j \in 1..Len(b) : Tau(a, b, i, j, TS, TE, mtau, Zero) = PlainTau(a, b, i, j)
   /\ \A v1, v2 \in 1..3 : IsiVal(v1, v2, Zero) = RDiv(RI(AbsI(v1-v2)), RI(Max2(v1,v2)))
LeSeq(s, t) == Len(s) = Len(t) /\ \A k \in 1..Len(s) : RLe(s[k], t[k])
\* raising MRTS never increases an ISI / SPIKE value and never removes a coincidence
Monotone == Case => \A m2 \in MRTSSet : RLe(mrts, m2) =>
   /\ LeSeq(Isi(a, b, TS, TE, m2).y, Isi(a, b, TS, TE, mrts).y)
   /\ LeSeq(Spk(a, b, TS, TE, m2).y1, Spk(a, b, TS, TE, mrts).y1)
   /\ LeSeq(Spk(a, b, TS, TE, m2).y2, Spk(a, b, TS, TE, mrts).y2)
   /\ Coinc(a, b, TS, TE, mtau, mrts) \subseteq Coinc(a, b, TS, TE, mtau, m2)
\* pooled inter-spike-interval lengths of one train, per the statement of C15
PoolOf(s) ==
   IF Len(s) = 0 THEN <<TE-TS>>
   ELSE IF Len(s) = 1 THEN <<s[1]-TS, TE-s[1]>>
   ELSE <<EdgeFirst(s, TS)>> \o [k \in 1..(Len(s)-1) |-> s[k+1]-s[k]] \o <<EdgeLast(s, TE)>>
\* only genuine (positive-length) intervals
PosPool(s) == {PoolOf(s)[k] : k \in 1..Len(PoolOf(s))} \ {0}
MinIsi == SMin(PosPool(a) \cup PosPool(b))
BelowAllIsNoOp == Case => (RLt(mrts, RI(MinIsi)) =>
   /\ Isi(a, b, TS, TE, mrts) = Isi(a, b, TS, TE, Zero)
   /\ Spk(a, b, TS, TE, mrts) = Spk(a, b, TS, TE, Zero)
   /\ Coinc(a, b, TS, TE, mtau, mrts) = Coinc(a, b, TS, TE, mtau, Zero))
(***************************************************************************)
(* C16  max_tau is an upper bound; None = 0; enlarging never removes       *)
(***************************************************************************)
TauBounded == Case => (RLt(Zero, mtau) =>
   \A pr \in Coinc(a, b, TS, TE, mtau, mrts) : RLt(RI(AbsI(a[pr[1]] - b[pr[2]])), mtau))
CoincGrowsWithTau == Case => \A t2 \in TauSet :
   (RLt(Zero, mtau) /\ (RLe(mtau, t2) \/ t2 = Zero)) =>
      Coinc(a, b, TS, TE, mtau, mrts) \subseteq Coinc(a, b, TS, TE, t2, mrts)
----------------------------------------------------------------------------
PoolDef(s) == PoolDefT(s, TS, TE)
AutoSq(x, y) == AutoSqList(<<x, y>>, TS, TE)
Export == Case =>
   PrintT(ToJson([k |-> "rel", a |-> a, b |-> b, ts |-> TS, te |-> TE, mrts |-> mrts, mtau |-> mtau, ri |-> ri,
                  minisi |-> MinIsi, autosq |-> AutoSq(a, b), poola |-> PoolDef(a), poolb |-> PoolDef(b)]))
=============================================================================

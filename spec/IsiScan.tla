------------------------------ MODULE IsiScan ------------------------------
(* L2: pyspike/cython/python_backend.py:isi_distance_python (lines 16-97) and its twin
   cython_profiles.pyx:isi_profile_cython, transcribed one action per loop branch.
   Inputs are what isi_profile_bi hands over: get_spikes_non_empty() of both trains.
   Invariants: the scan output equals the declarative definition Defs!IsiDef (C01),
   every value is in [0,1] (C07), cursors stay in bounds, nu > 0. *)
EXTENDS Integers, Sequences, FiniteSets, TLC, Rat, Defs, Json
CONSTANTS TS, TE, MaxSp, MRTSQ     \* MRTSQ: set of numerators n, MRTS = n/4
VARIABLES a, b, mrts, pc, i1, i2, nu1, nu2, ev, vals, path
vars == <<a, b, mrts, pc, i1, i2, nu1, nu2, ev, vals, path>>
Neg1 == -1
Neg4 == -4
Neg2 == -2
Neg3 == -3
Grid == TS..TE
Trains == { SortedSeq(S) : S \in {Q \in SUBSET Grid : Cardinality(Q) <= MaxSp} }
s1 == NonEmpty(a, TS, TE)
s2 == NonEmpty(b, TS, TE)
N1 == Len(s1)
N2 == Len(s2)
P(s, k) == s[k+1]                   \* 0-based access as in the code
Val == IsiVal(nu1, nu2, mrts)
ValP(n1, n2) == IsiVal(n1, n2, mrts)
EndNu(s) == LET N == Len(s) IN IF N > 1 THEN Max2(TE-P(s,N-1), P(s,N-1)-P(s,N-2)) ELSE TE-P(s,N-1)
\* Init fixes the first train only; Pick chooses the rest, so that TLC's workers share the
\* enumeration (invariants of initial states are evaluated sequentially)
Init ==
   /\ a \in Trains /\ b = <<>> /\ mrts = Zero
   /\ pc = "pick" /\ i1 = 0 /\ i2 = 0 /\ nu1 = 0 /\ nu2 = 0 /\ ev = <<>> /\ vals = <<>> /\ path = <<>>
Pick ==
   /\ pc = "pick"
   /\ b' \in Trains /\ mrts' \in {Norm(n,4) : n \in MRTSQ}
   /\ pc' = "start" /\ UNCHANGED <<a, i1, i2, nu1, nu2, ev, vals, path>>
\* lines 30-46
StartNu(s) == LET N == Len(s) IN
   IF P(s,0) > TS THEN (IF N > 1 THEN Max2(P(s,0)-TS, P(s,1)-P(s,0)) ELSE P(s,0)-TS)
   ELSE (IF N > 1 THEN P(s,1)-P(s,0) ELSE TE-P(s,0))
StartIdx(s) == IF P(s,0) > TS THEN -1 ELSE 0
Start ==
   /\ pc = "start"
   /\ nu1' = StartNu(s1) /\ i1' = StartIdx(s1)
   /\ nu2' = StartNu(s2) /\ i2' = StartIdx(s2)
   /\ ev' = <<TS>> /\ vals' = <<ValP(StartNu(s1), StartNu(s2))>>
   /\ pc' = "loop" /\ path' = Append(path, "start")
   /\ UNCHANGED <<a, b, mrts>>
Looping == pc = "loop" /\ i1 + i2 < N1 + N2 - 2
\* Python's short-circuit `and` / `or` written with IF so that no index is evaluated out of range
Cond1 == IF ~(i1 < N1-1) THEN FALSE ELSE (IF i2 = N2-1 THEN TRUE ELSE P(s1,i1+1) < P(s2,i2+1))
Cond2 == IF ~(i2 < N2-1) THEN FALSE ELSE (IF i1 = N1-1 THEN TRUE ELSE P(s1,i1+1) > P(s2,i2+1))
NextNu(s, k) == IF k < Len(s)-1 THEN P(s,k+1)-P(s,k) ELSE EndNu(s)
\* lines 49-57
Adv1 ==
   /\ Looping /\ Cond1
   /\ i1' = i1+1 /\ nu1' = NextNu(s1, i1+1)
   /\ ev' = Append(ev, P(s1,i1+1)) /\ vals' = Append(vals, ValP(NextNu(s1,i1+1), nu2))
   /\ path' = Append(path, "adv1")
   /\ UNCHANGED <<a, b, mrts, pc, i2, nu2>>
\* lines 59-68
Adv2 ==
   /\ Looping /\ ~Cond1 /\ Cond2
   /\ i2' = i2+1 /\ nu2' = NextNu(s2, i2+1)
   /\ ev' = Append(ev, P(s2,i2+1)) /\ vals' = Append(vals, ValP(nu1, NextNu(s2,i2+1)))
   /\ path' = Append(path, "adv2")
   /\ UNCHANGED <<a, b, mrts, pc, i1, nu1>>
\* lines 70-85
AdvBoth ==
   /\ Looping /\ ~Cond1 /\ ~Cond2
   /\ i1' = i1+1 /\ i2' = i2+1 /\ nu1' = NextNu(s1, i1+1) /\ nu2' = NextNu(s2, i2+1)
   /\ ev' = Append(ev, P(s1,i1+1)) /\ vals' = Append(vals, ValP(NextNu(s1,i1+1), NextNu(s2,i2+1)))
   /\ path' = Append(path, "both")
   /\ UNCHANGED <<a, b, mrts, pc>>
\* lines 90-97: the last event is the interval end (trim a zero-length last piece)
Finish ==
   /\ pc = "loop" /\ ~(i1 + i2 < N1 + N2 - 2)
   /\ IF Last(ev) = TE
      THEN /\ vals' = Front(vals) /\ ev' = ev /\ path' = Append(path, "trim")
      ELSE /\ ev' = Append(ev, TE) /\ vals' = vals /\ path' = Append(path, "close")
   /\ pc' = "done"
   /\ UNCHANGED <<a, b, mrts, i1, i2, nu1, nu2>>
Next == Pick \/ Start \/ Adv1 \/ Adv2 \/ AdvBoth \/ Finish
Spec == Init /\ [][Next]_vars
----------------------------------------------------------------------------
Def == IsiDef(a, b, TS, TE, mrts)
Correct == pc = "done" => (ev = Def.x /\ vals = Def.y)
InRange == \A k \in 1..Len(vals) : RInUnit(vals[k])
CursorBounds == pc \in {"loop", "done"} => (-1 <= i1 /\ i1 <= N1-1 /\ -1 <= i2 /\ i2 <= N2-1)
\* a zero interval length can only occur in the zero-length last piece that Finish trims
NuPositive == (pc = "loop" /\ Last(ev) < TE) => (nu1 > 0 /\ nu2 > 0)
\* the scan terminates: every non-final state has a successor
Terminates == pc \notin {"done", "pick"} => ENABLED Next
\* definition-level facts used by C07 / C15 (checked on the same enumeration)
Symmetric == pc = "start" => IsiDef(b, a, TS, TE, mrts) = Def
Identity == pc = "start" => \A k \in 1..Len(IsiDef(a, a, TS, TE, mrts).y) : IsiDef(a, a, TS, TE, mrts).y[k] = Zero
Export == pc = "done" =>
   PrintT(ToJson([k |-> "isi", a |-> a, b |-> b, ts |-> TS, te |-> TE, mrts |-> mrts,
                  path |-> path, x |-> ev, y |-> vals]))
=============================================================================

----------------------------- MODULE SpikeScan -----------------------------
(* L2: python_backend.py:spike_distance_python (lines 143-320) with get_min_dist (103-122) and
   dist_at_t (127-138); twins cython_profiles.pyx:spike_profile_cython and
   cython_distances.pyx:spike_distance_cython.  One action per loop branch, the code's
   per-train variables grouped in the records st.r1 / st.r2.
   DevF9 = TRUE reproduces the initialisation as it was before the fix of finding F9
   (a one-spike train whose spike is on t_start was interpolated towards nearest(t_end)). *)
EXTENDS Integers, Sequences, FiniteSets, TLC, Rat, Defs, Json
CONSTANTS TS, TE, MaxSp, MRTSQ, RISet, DevF9
VARIABLES a, b, mrts, ri, pc, st, path
vars == <<a, b, mrts, ri, pc, st, path>>
Neg1 == -1
Neg2 == -2
Neg3 == -3
Grid == TS..TE
Trains == { SortedSeq(S) : S \in {Q \in SUBSET Grid : Cardinality(Q) <= MaxSp} }
P(s, k) == s[k+1]
t1 == NonEmpty(a, TS, TE)
t2 == NonEmpty(b, TS, TE)
N1 == Len(t1)
N2 == Len(t2)
AuxOf(s) == Aux(s, TS, TE)
\* get_min_dist(spike_time, spike_train, start_index, t_start(aux), t_end(aux)): incremental search, early exit
RECURSIVE GMD(_,_,_,_,_)
GMD(t, s, k, d, tend) ==
   IF k < Len(s) THEN
      LET dt == AbsI(t - P(s,k)) IN IF dt > d THEN d ELSE GMD(t, s, k+1, dt, tend)
   ELSE LET dt == AbsI(tend - t) IN IF dt > d THEN d ELSE dt
GetMinDist(t, s, start, ax) == GMD(t, s, IF start < 0 THEN 0 ELSE start, AbsI(t - ax[1]), ax[2])
Dist(i1, i2, s1, s2) == DistAtT(i1, i2, s1, s2, mrts, ri)
EndIsi(s) == LET N == Len(s) IN IF N > 1 THEN Max2(TE-P(s,N-1), P(s,N-1)-P(s,N-2)) ELSE TE-P(s,N-1)
NoSt == [r1 |-> [idx |-> 0], r2 |-> [idx |-> 0], ev |-> <<>>, ys |-> <<>>, ye |-> <<>>]
\* Init fixes the first train only; Pick chooses the rest, so that TLC's workers share the
\* enumeration (invariants of initial states are evaluated sequentially)
Init == a \in Trains /\ b = <<>> /\ mrts = Zero /\ ri = FALSE /\ pc = "pick" /\ st = NoSt /\ path = <<>>
Pick ==
   /\ pc = "pick"
   /\ b' \in Trains /\ mrts' \in {Norm(n,4) : n \in MRTSQ} /\ ri' \in RISet
   /\ pc' = "start" /\ UNCHANGED <<a, st, path>>
\* per-train initialisation, lines 172-213
InitTrain(s, o) ==
   LET N == Len(s)  axo == AuxOf(o)  axs == AuxOf(s)
       tp0 == IF P(s,0) = TS THEN TS ELSE axs[1]
   IN IF P(s,0) > TS THEN
        LET tf == P(s,0)  dtf == GetMinDist(tf, o, 0, axo) IN
        [tp |-> tp0, tf |-> tf, dtf |-> dtf, dtp |-> dtf,
         isi |-> IF N > 1 THEN Max2(tf-TS, P(s,1)-P(s,0)) ELSE tf-TS, s |-> RI(dtf), idx |-> -1]
      ELSE
        LET tf == IF N > 1 THEN P(s,1) ELSE TE
            dtp == GetMinDist(tp0, o, 0, axo)
            dtf == IF (~DevF9) /\ N = 1 THEN dtp ELSE GetMinDist(tf, o, 0, axo) IN
        [tp |-> tp0, tf |-> tf, dtf |-> dtf, dtp |-> dtp, isi |-> tf - P(s,0), s |-> RI(dtp), idx |-> 0]
Start ==
   /\ pc = "start"
   /\ LET r1 == InitTrain(t1, t2)  r2 == InitTrain(t2, t1) IN
      st' = [r1 |-> r1, r2 |-> r2, ev |-> <<TS>>,
             ys |-> <<Dist(r1.isi, r2.isi, r1.s, r2.s)>>, ye |-> <<>>]
   /\ pc' = "loop" /\ path' = Append(path, "start")
   /\ UNCHANGED <<a, b, mrts, ri>>
\* advance train "me" (record r, spikes s) against the other (record q, spikes o); lines 219-248
Advance(r, s, q, o) ==
   LET N == Len(s)  i == r.idx + 1
       sEnd == RDiv(RI(r.dtf*(r.tf - r.tp)), RI(r.isi))
       tp == r.tf
       tf == IF i < N-1 THEN P(s,i+1) ELSE AuxOf(s)[2]
       sOther == RDiv(RI(q.dtp*(q.tf - tp) + q.dtf*(tp - q.tp)), RI(q.isi))
       dtp == r.dtf
       dtf == IF i < N-1 THEN GetMinDist(tf, o, q.idx, AuxOf(o)) ELSE dtp
       isi == IF i < N-1 THEN tf - tp ELSE EndIsi(s)
   IN [me |-> [tp |-> tp, tf |-> tf, dtf |-> dtf, dtp |-> dtp, isi |-> isi, s |-> RI(dtp), idx |-> i],
       sEnd |-> sEnd, sOther |-> sOther, t |-> tp]
Cond1 == IF ~(st.r1.idx < N1-1) THEN FALSE ELSE (IF st.r1.tf < st.r2.tf THEN TRUE ELSE st.r2.idx = N2-1)
Cond2 == IF ~(st.r2.idx < N2-1) THEN FALSE ELSE (IF st.r1.tf > st.r2.tf THEN TRUE ELSE st.r1.idx = N1-1)
Looping == pc = "loop" /\ st.r1.idx + st.r2.idx < N1+N2-2
Adv1 ==
   /\ Looping /\ Cond1
   /\ LET u == Advance(st.r1, t1, st.r2, t2) IN
      st' = [st EXCEPT !.r1 = u.me, !.r2.s = u.sOther, !.ev = Append(@, u.t),
              !.ye = Append(@, Dist(st.r1.isi, st.r2.isi, u.sEnd, u.sOther)),
              !.ys = Append(@, Dist(u.me.isi, st.r2.isi, u.me.s, u.sOther))]
   /\ path' = Append(path, "adv1")
   /\ UNCHANGED <<a, b, mrts, ri, pc>>
Adv2 ==
   /\ Looping /\ ~Cond1 /\ Cond2
   /\ LET u == Advance(st.r2, t2, st.r1, t1) IN
      st' = [st EXCEPT !.r2 = u.me, !.r1.s = u.sOther, !.ev = Append(@, u.t),
              !.ye = Append(@, Dist(st.r1.isi, st.r2.isi, u.sOther, u.sEnd)),
              !.ys = Append(@, Dist(st.r1.isi, u.me.isi, u.sOther, u.me.s))]
   /\ path' = Append(path, "adv2")
   /\ UNCHANGED <<a, b, mrts, ri, pc>>
\* simultaneous branch, lines 279-306
Both(r, s, q, o, qidxNew) ==
   LET N == Len(s)  i == r.idx + 1  tp == r.tf IN
   IF i < N-1 THEN [tp |-> tp, tf |-> P(s,i+1), dtp |-> 0,
                    dtf |-> GetMinDist(P(s,i+1), o, qidxNew, AuxOf(o)),
                    isi |-> P(s,i+1) - tp, s |-> r.s, idx |-> i]
   ELSE [tp |-> tp, tf |-> AuxOf(s)[2], dtp |-> 0, dtf |-> 0, isi |-> EndIsi(s), s |-> r.s, idx |-> i]
AdvBoth ==
   /\ Looping /\ ~Cond1 /\ ~Cond2
   /\ st' = [st EXCEPT !.r1 = Both(st.r1, t1, st.r2, t2, st.r2.idx+1),
                       !.r2 = Both(st.r2, t2, st.r1, t1, st.r1.idx+1),
                       !.ev = Append(@, st.r1.tf), !.ye = Append(@, Zero), !.ys = Append(@, Zero)]
   /\ path' = Append(path, "both")
   /\ UNCHANGED <<a, b, mrts, ri, pc>>
\* lines 309-320
Finish ==
   /\ pc = "loop" /\ ~(st.r1.idx + st.r2.idx < N1+N2-2)
   /\ IF Last(st.ev) = TE
      THEN /\ st' = [st EXCEPT !.ys = Front(@)] /\ path' = Append(path, "trim")
      ELSE /\ st' = [st EXCEPT !.ev = Append(@, TE),
                       !.ye = Append(@, Dist(st.r1.isi, st.r2.isi, RI(st.r1.dtf), RI(st.r2.dtf)))]
           /\ path' = Append(path, "close")
   /\ pc' = "done"
   /\ UNCHANGED <<a, b, mrts, ri>>
Next == Pick \/ Start \/ Adv1 \/ Adv2 \/ AdvBoth \/ Finish
Spec == Init /\ [][Next]_vars
----------------------------------------------------------------------------
Def == SpikeDef(a, b, TS, TE, mrts, ri)
Correct == pc = "done" => (st.ev = Def.x /\ st.ys = Def.y1 /\ st.ye = Def.y2)
InRange == pc = "done" => \A k \in 1..Len(st.ys) : RInUnit(st.ys[k]) /\ RInUnit(st.ye[k])
\* the profile is 0 at every instant where both trains spike together
ZeroAtShared == pc = "done" =>
   \A k \in 2..(Len(st.ev)-1) :
      (st.ev[k] \in SpikesIn(a) /\ st.ev[k] \in SpikesIn(b)) => (st.ye[k-1] = Zero /\ st.ys[k] = Zero)
\* the early-exit incremental nearest-spike search finds the global minimum
MinDistIsGlobal == pc = "loop" =>
   /\ (st.r1.idx >= 0 => st.r1.dtp = Nearest(P(t1, st.r1.idx), t2, TS, TE))
   /\ (st.r2.idx >= 0 => st.r2.dtp = Nearest(P(t2, st.r2.idx), t1, TS, TE))
CursorBounds == pc = "loop" => (-1 <= st.r1.idx /\ st.r1.idx <= N1-1 /\ -1 <= st.r2.idx /\ st.r2.idx <= N2-1)
Terminates == pc \notin {"done", "pick"} => ENABLED Next
Symmetric == pc = "start" => LET d == SpikeDef(b, a, TS, TE, mrts, ri) IN d = Def
Export == pc = "done" =>
   PrintT(ToJson([k |-> "spike", a |-> a, b |-> b, ts |-> TS, te |-> TE, mrts |-> mrts, ri |-> ri,
                  path |-> path, x |-> st.ev, y1 |-> st.ys, y2 |-> st.ye]))
=============================================================================

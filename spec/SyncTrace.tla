------------------------------ MODULE SyncTrace ------------------------------
(* Trace validation (code -> spec) of coincidence_python against SyncScan; see IsiTrace.tla.
   Logged per loop iteration: both cursors, the event count, the mark of the new event and the
   (possibly re-marked) previous event. *)
EXTENDS SyncScan, IOUtils
Traces == JsonDeserialize(IOEnv.TRACE_FILE)
NoTrains == {<<>>}      \* replaces the enumeration of all trains of the scan module (cfg: Trains <- NoTrains)
VARIABLES tid, l, rej
tvars == <<vars, tid, l, rej>>
Tr == Traces[tid]
Ev == Tr.events[l]
ToSeq(x) == [k \in 1..Len(x) |-> x[k]]
TInit == /\ tid \in 1..Len(Traces) /\ l = 1 /\ rej = FALSE
         /\ a = ToSeq(Traces[tid].a) /\ b = ToSeq(Traces[tid].b)
         /\ mrts = Norm(Traces[tid].mq, 4) /\ mtau = Norm(Traces[tid].tq, 4)
         /\ pc = "loop" /\ i = -1 /\ j = -1 /\ ev = <<>> /\ c = <<>> /\ mp = <<>> /\ ord = <<>>
         /\ d1 = Zeros(Len(Traces[tid].a)) /\ d2 = Zeros(Len(Traces[tid].b))
         /\ hits = {} /\ acc = NoAcc /\ path = <<>>
         /\ cs = Coinc(ToSeq(Traces[tid].a), ToSeq(Traces[tid].b), TS, TE, Norm(Traces[tid].tq, 4), Norm(Traces[tid].mq, 4))
         /\ csw = Coinc(ToSeq(Traces[tid].b), ToSeq(Traces[tid].a), TS, TE, Norm(Traces[tid].tq, 4), Norm(Traces[tid].mq, 4))
Logged(name) == l <= Len(Tr.events) /\ Ev.e = name
Match == /\ Ev.i = i' /\ Ev.j = j' /\ Ev.n = Len(ev') /\ Ev.c = Last(c')
         /\ (Len(c') > 1 => Ev.cp = c'[Len(c')-1])
Step == Adv1 \/ Adv2 \/ AdvBoth
TStep == \/ (Logged("sync.step") /\ Step /\ Match)
         \/ (Logged("sync.ret") /\ Finish /\ Ev.n + 2 = Len(ev') /\ ToSeq(Tr.x) = ev' /\ ToSeq(Tr.c) = c' /\ ToSeq(Tr.mp) = mp')
Silent == Tr.nosteps /\ Step
TNext == \/ (TStep /\ l' = l+1 /\ UNCHANGED <<tid, rej>>)
         \/ (Silent /\ UNCHANGED <<tid, l, rej>>)
         \/ (pc # "done" /\ ~rej /\ ~ENABLED TStep /\ ~ENABLED Silent /\ rej' = TRUE /\ UNCHANGED <<vars, tid, l>>)
TSpec == TInit /\ [][TNext]_tvars
Verdict == (pc = "done" \/ rej) =>
   PrintT(ToJson([k |-> "verdict", id |-> Tr.id, accepted |-> ~rej, at |-> l, path |-> path]))
=============================================================================

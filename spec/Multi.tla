------------------------------- MODULE Multi -------------------------------
(* L3: the library as a user sees it, for lists of spike trains: one Choose/Exec pair per public
   entry point, structured like the code:
     generic.py   _generic_profile_multi (pairs from `indices`, divide-and-conquer addition with the
                  transcribed add routines of FuncOps, 1/M scaling), _generic_distance_multi (scalar
                  accumulation over pairs), _generic_distance_matrix (fill by position);
     spike_sync.py  spike_sync_multi (pooled sums), spike_sync_matrix, filter_by_spike_sync;
     spike_directionality.py  values / matrix / spike_train_order(_multi).
   The bivariate building blocks are the declarative definitions of Defs.tla (their equality with the
   scans is C01-C04).  Properties: C05 (scalar route = average of the profile route), C06 (pointwise
   mean / pooled sums, permutation invariance, matrices), C14 (call forms and index selections), C17
   (filter), C18 (well-formed results), multivariate part of C04.
   A list is N trains; `idx` selects positions (any subset of size >= 2 in any order). *)
EXTENDS Integers, Sequences, FiniteSets, TLC, Rat, Defs, FuncOps, Json, Randomization
CONSTANTS TS, TE, MaxSp, N,
          MRTS4, TAU4, RIFlag,      \* one keyword setting per run: MRTS = MRTS4/4, max_tau = TAU4/4
          FnSet,                    \* entry points explored
          IdxMode,                  \* "none" | "all" (every ordered subset of size >= 2) | "pairs" | "perms"
          IvCodes,                  \* averaging intervals: 0 = None, 100*i+j = [TS+i/2, TS+j/2]
          ThrCodes,                 \* filter thresholds: 100*p+q = p/q
          Sample,                   \* 0 = all lists; k > 0 = every train drawn from a random k-subset
          PoolMode,                 \* "all" | "deg" (degenerate trains only: empty, one spike, edge-only)
          ErrorPaths                \* TRUE: also explore calls that the library rejects
VARIABLES tr, call, res
vars == <<tr, call, res>>
Neg1 == -1
Neg2 == -2
Grid == TS..TE
AllTrains == { SortedSeq(S) : S \in {Q \in SUBSET Grid : Cardinality(Q) <= MaxSp} }
mrts == Norm(MRTS4, 4)
mtau == Norm(TAU4, 4)
----------------------------------------------------------------------------
\* ---- bivariate building blocks as function records
ToPwc(p) == [x |-> p.x, y1 |-> p.y, y2 |-> p.y]
ToDisc(p) == [x |-> p.x, y1 |-> [k \in 1..Len(p.y) |-> RI(p.y[k])], y2 |-> [k \in 1..Len(p.mp) |-> RI(p.mp[k])]]
BiProfile(fn, a, b) ==
   IF fn = "isi" THEN ToPwc(IsiDef(a, b, TS, TE, mrts))
   ELSE IF fn = "spike" THEN SpikeDef(a, b, TS, TE, mrts, RIFlag)
   ELSE IF fn = "sync" THEN ToDisc(SyncDef(a, b, TS, TE, mtau, mrts))
   ELSE ToDisc(OrderDef(a, b, TS, TE, mtau, mrts))
KindOf(fn) == IF fn = "isi" THEN "pwc" ELSE IF fn = "spike" THEN "pwl" ELSE "disc"
\* pairs of positions 1..n in the order the code generates them
PairSeq(n) == SetToSortSeq({pr \in (1..n) \X (1..n) : pr[1] < pr[2]},
                           LAMBDA p, q : p[1] < q[1] \/ (p[1] = q[1] /\ p[2] < q[2]))
\* _generic_profile_multi: recursive halving of the pair list, add()
RECURSIVE DnC(_,_,_)
DnC(fn, sel, ps) ==
   IF Len(ps) = 1 THEN BiProfile(fn, sel[ps[1][1]], sel[ps[1][2]])
   ELSE LET h == Len(ps) \div 2 IN
        AddK(KindOf(fn), DnC(fn, sel, SubSeq(ps, 1, h)), DnC(fn, sel, SubSeq(ps, h+1, Len(ps))))
ProfileMulti(fn, sel) ==
   LET ps == PairSeq(Len(sel))
       sum == DnC(fn, sel, ps)
   IN IF fn \in {"isi", "spike"} THEN ScaleK(KindOf(fn), sum, <<1, Len(ps)>>) ELSE sum
\* averaging interval from its code
IvA(c) == RAdd(RI(TS), Norm(c \div 100, 2))
IvB(c) == RAdd(RI(TS), Norm(c % 100, 2))
\* time average of a pwc / pwl record; (sum, multiplicity) of a discrete record
AvgOf(f, c) == IF c = 0 THEN RDiv(IntegralAll(f), RI(TE-TS))
               ELSE RDiv(IntegralAB(f, IvA(c), IvB(c)), RSub(IvB(c), IvA(c)))
SumsOf(f, c) == IF c = 0 THEN <<DiscSumAll(f, 1), DiscSumAll(f, 2)>>
                ELSE <<DiscSumAB(f, 1, IvA(c), IvB(c)), DiscSumAB(f, 2, IvA(c), IvB(c))>>
Ratio(s) == IF s[2] = Zero THEN One ELSE RDiv(s[1], s[2])
\* bivariate scalar (isi_distance_bi / spike_distance_bi / spike_sync_bi / spike_train_order_bi)
BiScalar(fn, a, b, c) ==
   IF fn \in {"isi", "spike"} THEN AvgOf(BiProfile(fn, a, b), c) ELSE Ratio(SumsOf(BiProfile(fn, a, b), c))
\* _generic_distance_multi / spike_sync_multi / spike_train_order_multi: accumulate over the pairs
ScalarMulti(fn, sel, c) ==
   LET ps == PairSeq(Len(sel)) IN
   IF fn \in {"isi", "spike"}
   THEN RDiv(RSum([k \in 1..Len(ps) |-> BiScalar(fn, sel[ps[k][1]], sel[ps[k][2]], c)]), RI(Len(ps)))
   ELSE Ratio(<<RSum([k \in 1..Len(ps) |-> SumsOf(BiProfile(fn, sel[ps[k][1]], sel[ps[k][2]]), c)[1]]),
                RSum([k \in 1..Len(ps) |-> SumsOf(BiProfile(fn, sel[ps[k][1]], sel[ps[k][2]]), c)[2]])>>)
\* _generic_distance_matrix / spike_sync_matrix: filled by POSITION in the selection
MatrixOf(fn, sel, c) ==
   [p \in 1..Len(sel) |-> [q \in 1..Len(sel) |->
      IF p = q THEN (IF fn = "sync" THEN One ELSE Zero)
      ELSE BiScalar(fn, sel[Min2(p,q)], sel[Max2(p,q)], c)]]
\* directionality of a with respect to b (sum of a's values, optionally per spike of a; 0 for an empty train)
DirOf(a, b, norm) ==
   LET d == ISum(DirDef(a, b, TS, TE, mtau, mrts).d1) IN
   IF norm THEN (IF Len(a) = 0 THEN Zero ELSE Norm(d, Len(a))) ELSE RI(d)
DirMatrix(sel, norm) ==
   [p \in 1..Len(sel) |-> [q \in 1..Len(sel) |->
      IF p = q THEN Zero
      ELSE IF p < q THEN DirOf(sel[p], sel[q], norm)
      ELSE RNeg(DirOf(sel[q], sel[p], norm))]]
\* spike_directionality_values: per spike, summed over the other selected trains, / (N_selected - 1)
DirValues(sel) ==
   [p \in 1..Len(sel) |-> [k \in 1..Len(sel[p]) |->
      Norm(ISum([q \in 1..Len(sel) |->
               IF q = p THEN 0
               ELSE IF p < q THEN DirDef(sel[p], sel[q], TS, TE, mtau, mrts).d1[k]
               ELSE DirDef(sel[q], sel[p], TS, TE, mtau, mrts).d2[k]]), Len(sel) - 1)]]
\* filter_by_spike_sync: number of other trains with which each spike is coincident
CoincCount(lst, p) ==
   [k \in 1..Len(lst[p]) |->
      ISum([q \in 1..Len(lst) |-> IF q = p THEN 0 ELSE SingleDef(lst[p], lst[q], TS, TE, mtau, mrts)[k]])]
Thr(c) == Norm(c \div 100, c % 100)
Filter(lst, c, keep) ==
   [p \in 1..Len(lst) |->
      LET cnt == CoincCount(lst, p) IN
      SelectSeq([k \in 1..Len(lst[p]) |-> <<lst[p][k], cnt[k]>>],
                LAMBDA e : LET above == RLt(RMul(Thr(c), RI(Len(lst)-1)), RI(e[2])) IN IF keep THEN above ELSE ~above)]
----------------------------------------------------------------------------
\* ---- the state machine
Sel(idx) == [k \in 1..Len(idx) |-> tr[idx[k]]]
Ident == [k \in 1..N |-> k]
InjSeqs(n) == {s \in [1..n -> 1..N] : \A i, j \in 1..n : i # j => s[i] # s[j]}
IdxSet == IF IdxMode = "none" THEN {Ident}
          ELSE IF IdxMode = "pairs" THEN InjSeqs(2)
          ELSE IF IdxMode = "perms" THEN InjSeqs(N)       \* every ordering of the whole list
          ELSE UNION {InjSeqs(n) : n \in 2..N}
NoCall == [fn |-> "none", idx |-> <<>>, iv |-> 0, thr |-> 0, norm |-> FALSE]
NoRes == [t |-> "none", f |-> [x |-> <<>>, y1 |-> <<>>, y2 |-> <<>>], v |-> Zero, mat |-> <<>>, lst |-> <<>>, lst2 |-> <<>>,
          err |-> ""]
DegTrains == {s \in AllTrains : Len(s) <= 1} \cup ({<<TS, TE>>, <<TS+1, TE-1>>} \cap AllTrains)
BasePool == IF PoolMode = "deg" THEN DegTrains ELSE AllTrains
\* a sampled pool always contains the empty train (lists with empty and repeated trains matter)
Pool == IF Sample = 0 THEN BasePool ELSE RandomSubset(Sample, BasePool) \cup {<<>>}
Init == tr \in [1..N -> {<<>>}] /\ call = NoCall /\ res = NoRes
\* two steps so that TLC's workers share the enumeration of the lists
PickFirst == /\ call.fn = "none" /\ \A k \in 1..N : tr[k] = <<>> /\ res.t = "none"
             /\ \E a \in Pool : tr' = [tr EXCEPT ![1] = a]
             /\ call' = [NoCall EXCEPT !.fn = "picked1"] /\ UNCHANGED res
PickRest == /\ call.fn = "picked1"
            /\ \E rest \in [2..N -> Pool] : tr' = [k \in 1..N |-> IF k = 1 THEN tr[1] ELSE rest[k]]
            /\ call' = [NoCall EXCEPT !.fn = "ready"] /\ UNCHANGED res
ProfFns == {"isi_profile", "spike_profile", "sync_profile", "order_profile"}
ScalFns == {"isi_distance", "spike_distance", "sync", "order"}
MatFns == {"isi_matrix", "spike_matrix", "sync_matrix"}
Measure(fn) == IF fn \in {"isi_profile", "isi_distance", "isi_matrix"} THEN "isi"
               ELSE IF fn \in {"spike_profile", "spike_distance", "spike_matrix"} THEN "spike"
               ELSE IF fn \in {"sync_profile", "sync", "sync_matrix"} THEN "sync" ELSE "order"
\* the order / directionality functions do not accept an interval
IvOk(fn, c) == c = 0 \/ fn \in {"isi_distance", "spike_distance", "sync", "isi_matrix", "spike_matrix", "sync_matrix"}
\* ---- error paths (beyond the 20 properties; bound as advisory observations only)
\*   an index outside the list            -> AssertionError ("Invalid index list.")
\*   an averaging interval for the order / directionality functions -> NotImplementedError
BadIdx == <<1, N+1>>
IntervalUnsupported(fn) == fn \in {"order", "dir_matrix", "dir_values"}
ChooseBad ==
   /\ call.fn = "ready" /\ ErrorPaths
   /\ \/ \E fn \in FnSet \ {"filter"} : call' = [fn |-> fn, idx |-> BadIdx, iv |-> 0, thr |-> 12, norm |-> FALSE]
      \/ \E fn \in FnSet : IntervalUnsupported(fn) /\ call' = [fn |-> fn, idx |-> Ident, iv |-> 102, thr |-> 12, norm |-> FALSE]
   /\ UNCHANGED <<tr, res>>
IsBad(cl) == (\E k \in 1..Len(cl.idx) : cl.idx[k] > N) \/ (cl.iv # 0 /\ IntervalUnsupported(cl.fn))
BadOutcome(cl) == IF \E k \in 1..Len(cl.idx) : cl.idx[k] > N THEN "raise:AssertionError" ELSE "raise:NotImplementedError"
Choose ==
   /\ call.fn = "ready"
   /\ \E fn \in FnSet, idx \in IdxSet, c \in IvCodes, th \in ThrCodes, nm \in BOOLEAN :
        /\ IvOk(fn, c)
        /\ (fn \notin (ScalFns \cup MatFns) => c = 0)
        /\ (fn = "filter" => idx = Ident)
        /\ (fn # "filter" => th = CHOOSE t \in ThrCodes : TRUE)
        /\ (fn \notin {"dir_matrix"} => nm = FALSE)
        /\ call' = [fn |-> fn, idx |-> idx, iv |-> c, thr |-> th, norm |-> nm]
   /\ UNCHANGED <<tr, res>>
Eval(cl) ==
   LET sel == Sel(cl.idx)  ms == Measure(cl.fn) IN
   IF cl.fn \in ProfFns THEN
      [NoRes EXCEPT !.t = KindOf(ms),
                    !.f = IF Len(sel) = 2 THEN BiProfile(ms, sel[1], sel[2]) ELSE ProfileMulti(ms, sel)]
   ELSE IF cl.fn \in ScalFns THEN
      [NoRes EXCEPT !.t = "scalar",
                    !.v = IF Len(sel) = 2 THEN BiScalar(ms, sel[1], sel[2], cl.iv) ELSE ScalarMulti(ms, sel, cl.iv)]
   ELSE IF cl.fn \in MatFns THEN [NoRes EXCEPT !.t = "matrix", !.mat = MatrixOf(ms, sel, cl.iv)]
   ELSE IF cl.fn = "dir_matrix" THEN [NoRes EXCEPT !.t = "matrix", !.mat = DirMatrix(sel, cl.norm)]
   ELSE IF cl.fn = "dir_values" THEN [NoRes EXCEPT !.t = "values", !.lst = DirValues(sel)]
   ELSE [NoRes EXCEPT !.t = "filter", !.lst = Filter(tr, cl.thr, TRUE), !.lst2 = Filter(tr, cl.thr, FALSE)]
Exec == /\ call.fn \notin {"none", "picked1", "ready"} /\ res.t = "none"
        /\ res' = IF IsBad(call) THEN [NoRes EXCEPT !.t = "error", !.err = BadOutcome(call)] ELSE Eval(call)
        /\ UNCHANGED <<tr, call>>
Next == PickFirst \/ PickRest \/ Choose \/ ChooseBad \/ Exec
Spec == Init /\ [][Next]_vars
Finished == res.t # "none"
Done == res.t \notin {"none", "error"}
----------------------------------------------------------------------------
\* ---- properties
sel0 == IF IsBad(call) THEN <<>> ELSE Sel(call.idx)
ms0 == Measure(call.fn)
\* C06: the multivariate ISI / SPIKE profile is at every time the mean of the bivariate profiles
PointwiseMean == (Done /\ call.fn \in {"isi_profile", "spike_profile"}) =>
   LET ps == PairSeq(Len(sel0))
       bi(k) == BiProfile(ms0, sel0[ps[k][1]], sel0[ps[k][2]])
   IN /\ res.f.x[1] = TS /\ res.f.x[Len(res.f.x)] = TE /\ StrictlyIncreasing(res.f.x)
      /\ \A t \in TS..(TE-1) : RightLim(res.f, t) = RDiv(RSum([k \in 1..Len(ps) |-> RightLim(bi(k), t)]), RI(Len(ps)))
      /\ \A t \in (TS+1)..TE : LeftLim(res.f, t) = RDiv(RSum([k \in 1..Len(ps) |-> LeftLim(bi(k), t)]), RI(Len(ps)))
\* C06: the multivariate SPIKE-Sync / order profile carries at every event time the summed counts and multiplicities
PooledEvents == (Done /\ call.fn \in {"sync_profile", "order_profile"}) =>
   LET ps == PairSeq(Len(sel0))
       bi(k) == BiProfile(ms0, sel0[ps[k][1]], sel0[ps[k][2]])
   IN /\ EvTimes(res.f) = UNION {EvTimes(bi(k)) : k \in 1..Len(ps)}
      /\ \A k \in 2..(Len(res.f.x)-2) : res.f.x[k] < res.f.x[k+1]
      /\ \A t \in EvTimes(res.f) :
            /\ EvSum(res.f, t, 1) = RSum([k \in 1..Len(ps) |-> EvSum(bi(k), t, 1)])
            /\ EvSum(res.f, t, 2) = RSum([k \in 1..Len(ps) |-> EvSum(bi(k), t, 2)])
\* C05: the scalar route (accumulation over pairs) equals the average of the profile route
RouteSEqRouteP == (Done /\ call.fn \in ScalFns) =>
   LET prof == IF Len(sel0) = 2 THEN BiProfile(ms0, sel0[1], sel0[2]) ELSE ProfileMulti(ms0, sel0) IN
   res.v = IF ms0 \in {"isi", "spike"} THEN AvgOf(prof, call.iv) ELSE Ratio(SumsOf(prof, call.iv))
\* C06: no result depends on the order of the trains
Perms(n) == {s \in [1..n -> 1..n] : \A i, j \in 1..n : i # j => s[i] # s[j]}
PermInvariant == (Done /\ call.fn \in (ProfFns \cup ScalFns)) =>
   \A p \in Perms(Len(call.idx)) :
      LET r2 == Eval([call EXCEPT !.idx = [k \in 1..Len(call.idx) |-> call.idx[p[k]]]]) IN
      IF call.fn = "order_profile" \/ call.fn = "order" THEN TRUE     \* order is antisymmetric, not invariant
      ELSE r2.f = res.f /\ r2.v = res.v
\* C06: matrices contain the bivariate values, are symmetric with the right diagonal
MatrixIsBivariate == (Done /\ call.fn \in MatFns) =>
   \A p, q \in 1..Len(sel0) :
      /\ res.mat[p][q] = res.mat[q][p]
      /\ (p # q => res.mat[p][q] = BiScalar(ms0, sel0[p], sel0[q], call.iv))
      /\ (p = q => res.mat[p][q] = IF ms0 = "sync" THEN One ELSE Zero)
\* C04: antisymmetric with zero diagonal; synfire indicator from the un-normalised matrix
Antisymmetric == (Done /\ call.fn = "dir_matrix") =>
   \A p, q \in 1..Len(sel0) : res.mat[p][q] = RNeg(res.mat[q][p])
NSpikes(sel) == ISum([k \in 1..Len(sel) |-> Len(sel[k])])
SynfireFromMatrix == (Done /\ call.fn = "order" /\ Len(sel0) > 2 /\ NSpikes(sel0) > 0) =>
   LET D == DirMatrix(sel0, FALSE)
       up == RSum([k \in 1..Len(PairSeq(Len(sel0))) |-> D[PairSeq(Len(sel0))[k][1]][PairSeq(Len(sel0))[k][2]]])
   IN res.v = RDiv(RMul(RI(2), up), RI((Len(sel0)-1) * NSpikes(sel0)))
\* C17: kept / removed are an order-preserving partition; keep iff the fraction is above the threshold
FilterPartition == (Done /\ call.fn = "filter") =>
   \A p \in 1..N :
      LET kept == [k \in 1..Len(res.lst[p]) |-> res.lst[p][k][1]]
          rem == [k \in 1..Len(res.lst2[p]) |-> res.lst2[p][k][1]] IN
      /\ SpikesIn(kept) \cup SpikesIn(rem) = SpikesIn(tr[p]) /\ SpikesIn(kept) \cap SpikesIn(rem) = {}
      /\ Len(kept) + Len(rem) = Len(tr[p])
      /\ IsTrain(kept, TS, TE) /\ IsTrain(rem, TS, TE)
\* C17: at spike times not shared between trains the multivariate profile shows count / (N-1)
FilterEqualsProfile == (Done /\ call.fn = "filter") =>
   LET prof == IF N = 2 THEN BiProfile("sync", tr[1], tr[2]) ELSE ProfileMulti("sync", tr) IN
   \A p \in 1..N : \A k \in 1..Len(tr[p]) :
      (\A q \in 1..N : q # p => tr[p][k] \notin SpikesIn(tr[q])) =>
         /\ EvSum(prof, tr[p][k], 1) = RI(CoincCount(tr, p)[k])
         /\ EvSum(prof, tr[p][k], 2) = RI(N-1)
\* C18: well-formed results
WellFormed == Done =>
   /\ (res.t \in {"pwc", "pwl"} =>
         /\ res.f.x[1] = TS /\ res.f.x[Len(res.f.x)] = TE /\ StrictlyIncreasing(res.f.x)
         /\ Len(res.f.y1) = Len(res.f.x) - 1 /\ Len(res.f.y2) = Len(res.f.x) - 1)
   /\ (res.t = "disc" =>
         /\ res.f.x[1] = TS /\ res.f.x[Len(res.f.x)] = TE
         /\ \A k \in 1..(Len(res.f.x)-1) : res.f.x[k] <= res.f.x[k+1]
         /\ Len(res.f.y1) = Len(res.f.x) /\ Len(res.f.y2) = Len(res.f.x)
         /\ \A k \in 1..Len(res.f.y2) : RLt(Zero, res.f.y2[k]))
\* a rejected call never yields a value
ErrorIsRejected == (res.t = "error") => (IsBad(call) /\ res.err \in {"raise:AssertionError", "raise:NotImplementedError"})
Export == Finished => PrintT(ToJson([k |-> "multi", ts |-> TS, te |-> TE, tr |-> tr, call |-> call, res |-> res,
                                 mrts |-> mrts, mtau |-> mtau, ri |-> RIFlag, autosq |-> AutoSqList(tr, TS, TE)]))
=============================================================================

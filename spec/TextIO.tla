------------------------------- MODULE TextIO -------------------------------
(* L3: text round trips and imports (C19), spikes.py:
     save_spike_trains_to_txt (126-142)   one line per train, '%.{p}e' tokens joined by the separator
     load_spike_trains_from_txt (31-66)   skip comment lines; a line of more than one character is
                                          parsed (np.fromstring, sorted unless is_sorted); a shorter
                                          line is an empty train unless empty lines are ignored
     spike_train_from_string (13-26), import_spike_trains_from_time_series (69-92),
     SpikeTrain.__init__ with a scalar edge.
   A file is a sequence of lines; a data line is a sequence of tokens.  Spike times are indices into
   a finite VALUE POOL sorted by value (index order = numeric order); the pool is closed under the
   rounding maps Rnd[p] (round-half-even to p+1 significant digits of the exact binary value), which
   the harness computes with exact decimal arithmetic and hands over as a JSON table. *)
EXTENDS Integers, Sequences, FiniteSets, TLC, Json, IOUtils, SequencesExt, Randomization
CONSTANTS Mode,          \* "roundtrip" | "series"
          NTrains, MaxLen, MaxEdits,
          Rows, Cols,    \* time-series matrices
          Sample         \* 0: all valid trains; k: a random k-subset (the empty train is always included)
VARIABLES trains, par, file, edits, loaded, pc
vars == <<trains, par, file, edits, loaded, pc>>
Tab == JsonDeserialize(IOEnv.POOL_FILE)     \* [n |-> P, precs |-> <<3, 8, 17>>, rnd |-> << <<..>>, ... >>]
P == Tab.n
NPrec == Len(Tab.precs)
Rnd(pi, v) == Tab.rnd[pi][v]
SortedIdx(S) == SetToSortSeq(S, <)
\* sorted trains; a spike time may be repeated (e.g. the pooled spikes of two units)
ValidTrains == { SortedIdx(S) : S \in {Q \in SUBSET (1..P) : Cardinality(Q) <= MaxLen} }
               \cup { <<v, v>> : v \in 1..P } \cup { <<v, v, w>> : v, w \in {u \in 1..P : MaxLen >= 3} }
TrainPool == IF Sample = 0 THEN ValidTrains ELSE RandomSubset(Sample, ValidTrains) \cup {<<>>}
NoPar == [pi |-> 1, ignore |-> TRUE, sorted |-> FALSE]
Init == /\ trains = <<>> /\ par = NoPar /\ file = <<>> /\ edits = <<>> /\ loaded = <<>>
        /\ pc = IF Mode = "roundtrip" THEN "pick" ELSE "series"
----------------------------------------------------------------------------
\* ---- round trip
Pick == /\ pc = "pick"
        /\ trains' \in [1..NTrains -> TrainPool]
        /\ par' \in [pi : 1..NPrec, ignore : BOOLEAN, sorted : BOOLEAN]
        /\ pc' = "save" /\ UNCHANGED <<file, edits, loaded>>
\* save: every spike formatted with precision p  ->  token Rnd[p](v)
Save == /\ pc = "save"
        /\ file' = [k \in 1..Len(trains) |->
                      [t |-> "data", toks |-> [i \in 1..Len(trains[k]) |-> Rnd(par.pi, trains[k][i])]]]
        /\ pc' = "edit" /\ UNCHANGED <<trains, par, edits, loaded>>
\* user edits between save and load
InsLine(s, pos, e) == SubSeq(s, 1, pos-1) \o <<e>> \o SubSeq(s, pos, Len(s))
Edit == /\ pc = "edit" /\ Len(edits) < MaxEdits
        /\ \/ \E pos \in 1..(Len(file)+1) :
                /\ file' = InsLine(file, pos, [t |-> "comment", toks |-> <<>>])
                /\ edits' = Append(edits, [e |-> "comment", pos |-> pos])
           \/ \E pos \in 1..(Len(file)+1) :
                /\ file' = InsLine(file, pos, [t |-> "blank", toks |-> <<>>])
                /\ edits' = Append(edits, [e |-> "blank", pos |-> pos])
           \* a hand-written line holding one short token ("5"): two characters with the newline
           \/ \E pos \in 1..(Len(file)+1) :
                /\ file' = InsLine(file, pos, [t |-> "data", toks |-> <<Tab.short>>])
                /\ edits' = Append(edits, [e |-> "short", pos |-> pos])
           \/ \E pos \in 1..Len(file) :
                /\ file[pos].t = "data" /\ Len(file[pos].toks) > 1
                /\ file' = [file EXCEPT ![pos].toks = Reverse(@)]
                /\ edits' = Append(edits, [e |-> "reverse", pos |-> pos])
        /\ UNCHANGED <<trains, par, loaded, pc>>
\* load_spike_trains_from_txt: the loop over the lines
IsShort(l) == l.t = "blank" \/ (l.t = "data" /\ Len(l.toks) = 0)     \* a line of at most one character
RECURSIVE LoadLoop(_,_)
LoadLoop(k, acc) ==
   IF k > Len(file) THEN acc
   ELSE LET l == file[k] IN
        IF l.t = "comment" THEN LoadLoop(k+1, acc)
        ELSE IF ~IsShort(l) THEN LoadLoop(k+1, Append(acc, IF par.sorted THEN l.toks ELSE SortSeq(l.toks, <)))
        ELSE IF ~par.ignore THEN LoadLoop(k+1, Append(acc, <<>>))
        ELSE LoadLoop(k+1, acc)
Load == /\ pc = "edit"
        /\ loaded' = LoadLoop(1, <<>>) /\ pc' = "done"
        /\ UNCHANGED <<trains, par, file, edits>>
----------------------------------------------------------------------------
\* ---- imports: 0/1 time series, start + (k+1)*bin for every non-zero sample k
Series == /\ pc = "series"
          /\ \E m \in [1..Rows -> [1..Cols -> {0,1}]] :
                /\ trains' = [r \in 1..Rows |-> SelectSeq([k \in 1..Cols |-> IF m[r][k] = 1 THEN k ELSE 0], LAMBDA x : x > 0)]
                /\ file' = [r \in 1..Rows |-> [t |-> "data", toks |-> m[r]]]
          /\ loaded' = trains'       \* multipliers k+1 (1-based column = k+1); the harness supplies start and bin
          /\ pc' = "done" /\ UNCHANGED <<par, edits>>
Next == Pick \/ Save \/ Edit \/ Load \/ Series
Spec == Init /\ [][Next]_vars
Done == pc = "done"
----------------------------------------------------------------------------
\* C19: what the round trip must return, stated on the saved trains and the edits
NoEdits == edits = <<>>
RoundTrip == (Done /\ Mode = "roundtrip" /\ NoEdits) =>
   LET exp == [k \in 1..NTrains |-> [i \in 1..Len(trains[k]) |-> Rnd(par.pi, trains[k][i])]] IN
   IF par.ignore THEN loaded = SelectSeq(exp, LAMBDA s : Len(s) > 0) ELSE loaded = exp
\* precision 17 is the identity on doubles
Identity17 == \A v \in 1..P : Tab.precs[NPrec] = 17 => Rnd(NPrec, v) = v
\* rounding is monotone, so a sorted train stays sorted
RndMonotone == \A pi \in 1..NPrec : \A v, w \in 1..P : v <= w => Rnd(pi, v) <= Rnd(pi, w)
\* same number of trains in the same order: comment lines are skipped, blank lines are empty trains
CountAndOrder == (Done /\ Mode = "roundtrip") =>
   LET datal == SelectSeq(file, LAMBDA l : l.t # "comment")
       kept == IF par.ignore THEN SelectSeq(datal, LAMBDA l : ~IsShort(l)) ELSE datal IN
   /\ Len(loaded) = Len(kept)
   /\ \A k \in 1..Len(kept) : ToSet(loaded[k]) = ToSet(kept[k].toks)
   /\ (~par.sorted => \A k \in 1..Len(loaded) : \A i \in 1..(Len(loaded[k])-1) : loaded[k][i] <= loaded[k][i+1])
Export == Done => PrintT(ToJson([k |-> "textio", mode |-> Mode, trains |-> trains, par |-> par, edits |-> edits,
                                 file |-> file, loaded |-> loaded]))
=============================================================================

----------------------------- MODULE FuncQuery -----------------------------
(* L2: the read-only queries of the three function classes, transcribed from
     PieceWiseConstFunc.py  (__call__ 33-79, get_plottable_data 103-126, integral 128-167, avrg 169-199)
     PieceWiseLinFunc.py    (__call__ 33-93, get_plottable_data 113-133, integral 135-191, avrg 193-223)
     DiscreteFunc.py        (get_plottable_data 49-124, integral 126-172, avrg 174-191)
   and checked against declarative definitions (C10, C11): exact Riemann integral, average,
   evaluation rule, plottable arrays; open-interval event sums, ratio-or-1 average, smoothing as
   the mean over unit contributions.  Choose picks the query, Exec computes it the code's way. *)
EXTENDS Integers, Sequences, FiniteSets, TLC, Rat, Defs, Json
CONSTANTS Kind, T0, T
VARIABLES f, q, res
vars == <<f, q, res>>
Neg1 == -1
Neg2 == -2
GenY1(b, k) == IF (b+k) % 4 = 0 THEN Zero ELSE Norm((IF k % 2 = 0 THEN 1 ELSE -1) * (5*b + 2*k + 1), 2*b+1)
GenY2(b, k) == Norm((IF (k+b) % 2 = 0 THEN 1 ELSE -1) * (3*b + 7*k + 2), b+2)
GenMp(b, k) == RI(1 + ((b + 2*k) % 3))
RX(X) == [k \in 1..Len(X) |-> RI(X[k])]           \* breakpoints as rationals
Fn(X) ==
   IF Kind = "disc"
   THEN LET n == Len(X)
            src(k) == IF n = 2 THEN k ELSE IF k = 1 THEN 2 ELSE IF k = n THEN n-1 ELSE k
        IN [x |-> RX(X), y1 |-> [k \in 1..n |-> GenY1(1, src(k))], y2 |-> [k \in 1..n |-> GenMp(1, src(k))]]
   ELSE [x |-> RX(X), y1 |-> [k \in 1..(Len(X)-1) |-> GenY1(1, k)],
         y2 |-> [k \in 1..(Len(X)-1) |-> IF Kind = "pwl" THEN GenY2(1, k) ELSE GenY1(1, k)]]
XSets ==
   IF Kind = "disc"
   THEN { <<T0>> \o e0 \o SortedSeq(S) \o e1 \o <<T>> :
             S \in SUBSET ((T0+1)..(T-1)), e0 \in {<<>>, <<T0>>}, e1 \in {<<>>, <<T>>} }
   ELSE { SortedSeq({T0,T} \cup S) : S \in SUBSET ((T0+1)..(T-1)) }
Quarter == { Norm(n,4) : n \in (4*T0)..(4*T) }
HalfG == { Norm(n,2) : n \in (2*T0)..(2*T) }
\* numpy.searchsorted on the breakpoint array (0-based insertion index)
SearchRight(x, v) == Cardinality({k \in 1..Len(x) : RLe(x[k], v)})
SearchLeft(x, v)  == Cardinality({k \in 1..Len(x) : RLt(x[k], v)})
X(k) == f.x[k+1]           \* 0-based access as in the code
Y1(k) == f.y1[k+1]
Y2(k) == f.y2[k+1]
NX == Len(f.x)
Interm(x0, x1, y0, y1, x) == RAdd(y0, RDiv(RMul(RSub(y1,y0), RSub(x,x0)), RSub(x1,x0)))
----------------------------------------------------------------------------
\* ---- integral(interval) as the code computes it
RECURSIVE SumPwc(_,_)
SumPwc(lo, hi) == IF lo >= hi THEN Zero ELSE RAdd(RMul(RSub(X(lo+1), X(lo)), Y1(lo)), SumPwc(lo+1, hi))
RECURSIVE SumPwl(_,_)
SumPwl(lo, hi) == IF lo >= hi THEN Zero ELSE
   RAdd(RMul(RSub(X(lo+1), X(lo)), RMul(Half, RAdd(Y1(lo), Y2(lo)))), SumPwl(lo+1, hi))
IntegralPwc(a, b) ==
   LET s == SearchRight(f.x, a)
       e == SearchLeft(f.x, b) - 1
   IN IF s > e THEN
        [branch |-> "same", v |-> RSub(RMul(RSub(X(s), X(e)), Y1(e)),
                                      RMul(RAdd(RSub(a, X(e)), RSub(X(s), b)), Y1(e)))]
      ELSE [branch |-> "general",
            v |-> RAdd(RAdd(SumPwc(s, e), RMul(RSub(X(s), a), Y1(s-1))), RMul(RSub(b, X(e)), Y1(e)))]
IntegralPwl(a, b) ==
   LET s == SearchRight(f.x, a)
       e == SearchLeft(f.x, b) - 1
   IN IF s > e THEN
        LET y0 == Interm(X(s-1), X(s), Y1(s-1), Y2(s-1), a)
            y1 == Interm(X(s-1), X(s), Y1(s-1), Y2(s-1), b)
        IN [branch |-> "same", v |-> RMul(RMul(RAdd(y0,y1), Half), RSub(b,a))]
      ELSE
        LET c1 == RMul(RMul(RSub(X(s), a), Half), RAdd(Y2(s-1), Interm(X(s-1), X(s), Y1(s-1), Y2(s-1), a)))
            c2 == RMul(RMul(RSub(b, X(e)), Half), RAdd(Y1(e), Interm(X(e), X(e+1), Y1(e), Y2(e), b)))
        IN [branch |-> "general", v |-> RAdd(RAdd(SumPwl(s, e), c1), c2)]
IntegralCont(a, b) == IF Kind = "pwc" THEN IntegralPwc(a, b) ELSE IntegralPwl(a, b)
IntegralFull == IF Kind = "pwc" THEN SumPwc(0, NX-1) ELSE SumPwl(0, NX-1)
\* DiscreteFunc.integral: sums over the entries start_ind .. end_ind-1
RECURSIVE SumEntries(_,_,_)
SumEntries(which, lo, hi) == IF lo >= hi THEN Zero ELSE
   RAdd(IF which = 1 THEN Y1(lo) ELSE Y2(lo), SumEntries(which, lo+1, hi))
IntegralDisc(a, b) ==
   LET s == SearchRight(f.x, a)
       e == SearchLeft(f.x, b)
   IN [branch |-> IF s >= e THEN "none" ELSE "some", v |-> SumEntries(1, s, e), m |-> SumEntries(2, s, e)]
IntegralDiscFull == [v |-> SumEntries(1, 1, NX-1), m |-> SumEntries(2, 1, NX-1)]
\* ---- __call__(t)
EvalScalar(t) ==
   LET ind == SearchRight(f.x, t) IN
   IF t = X(0) THEN [branch |-> "left", v |-> Y1(0)]
   ELSE IF t = X(NX-1) THEN [branch |-> "right", v |-> Y2(NX-2)]
   ELSE IF \E k \in 1..NX : f.x[k] = t THEN [branch |-> "knot", v |-> RMul(Half, RAdd(Y1(ind-1), Y2(ind-2)))]
   ELSE [branch |-> "inside", v |-> Interm(X(ind-1), X(ind), Y1(ind-1), Y2(ind-1), t)]
\* the vectorised path taken for a list of times
EvalSeq(t) ==
   LET ind0 == SearchRight(f.x, t)
       ind == IF ind0 = 0 THEN 1 ELSE IF ind0 = NX THEN NX-1 ELSE ind0
       indl == SearchLeft(f.x, t)
       v0 == Interm(X(ind-1), X(ind), Y1(ind-1), Y2(ind-1), t)
   IN IF ind # indl /\ ind > 1 /\ ind < NX THEN RMul(Half, RAdd(Y1(ind-1), Y2(ind-2))) ELSE v0
\* ---- get_plottable_data
PlotX == [k \in 1..(2*NX-2) |-> IF k = 1 THEN f.x[1] ELSE f.x[(k \div 2) + 1]]
PlotY == [k \in 1..(2*NX-2) |-> IF k % 2 = 1 THEN f.y1[(k+1) \div 2] ELSE f.y2[k \div 2]]
\* DiscreteFunc smoothing loop (averaging_window_size = k > 0)
MpI(j) == Y2(j)[1]                                   \* multiplicities are integers
RECURSIVE SmoothSide(_,_,_,_,_)
\* walks from entry j in direction dir; acc = <<y, mp>> accumulated so far
SmoothSide(j, dir, acc, E, n) ==
   IF j < 0 \/ j >= n THEN acc
   ELSE IF acc[2] + MpI(j) < E THEN SmoothSide(j+dir, dir, <<RAdd(acc[1], Y1(j)), acc[2] + MpI(j)>>, E, n)
   ELSE <<RAdd(acc[1], RDiv(RMul(Y1(j), RI(E - acc[2])), RI(MpI(j)))), E>>
SmoothCode(k) ==
   LET E == (k+1) * MpI(0) IN
   [i \in 1..NX |->
      IF MpI(i-1) >= E THEN RDiv(Y1(i-1), Y2(i-1))
      ELSE LET r == SmoothSide(i, 1, <<Y1(i-1), MpI(i-1)>>, E, NX)
               l == SmoothSide(i-2, -1, <<r[1], MpI(i-1)>>, E, NX)
           IN RDiv(l[1], RI(l[2] + r[2] - MpI(i-1)))]
----------------------------------------------------------------------------
\* ---- declarative definitions
\* exact integral of the denotation: overlap of [a,b] with every piece
ValIn(k, t) == Interm(f.x[k], f.x[k+1], f.y1[k], f.y2[k], t)
DefIntegral(a, b) ==
   RSum([k \in 1..Len(f.y1) |->
      LET lo == RMax(a, f.x[k])  hi == RMin(b, f.x[k+1]) IN
      IF RLt(lo, hi) THEN RMul(RMul(RAdd(ValIn(k,lo), ValIn(k,hi)), Half), RSub(hi,lo)) ELSE Zero])
DefEval(t) ==
   IF t = f.x[1] THEN f.y1[1]
   ELSE IF t = f.x[NX] THEN f.y2[NX-1]
   ELSE IF \E k \in 2..(NX-1) : f.x[k] = t
        THEN LET k == CHOOSE k \in 2..(NX-1) : f.x[k] = t IN RMul(Half, RAdd(f.y2[k-1], f.y1[k]))
   ELSE LET k == CHOOSE k \in 1..(NX-1) : RLt(f.x[k], t) /\ RLt(t, f.x[k+1]) IN ValIn(k, t)
\* events strictly inside (a,b): interior entries only (the two edge entries never count)
DefDiscSum(which, a, b) ==
   RSum([k \in 1..NX |-> IF k > 1 /\ k < NX /\ RLt(a, f.x[k]) /\ RLt(f.x[k], b)
                         THEN (IF which = 1 THEN f.y1[k] ELSE f.y2[k]) ELSE Zero])
\* smoothing by unit contributions: entry j consists of mp[j] units of value y[j]/mp[j]
UnitStart(i) == ISum([j \in 1..(i-1) |-> f.y2[j][1]])      \* number of units before entry i
TotalUnits == ISum([j \in 1..NX |-> f.y2[j][1]])
UnitVal(u) == LET j == CHOOSE j \in 1..NX : UnitStart(j) < u /\ u <= UnitStart(j) + f.y2[j][1]
              IN RDiv(f.y1[j], f.y2[j])
DefSmooth(k) ==
   LET E == (k+1) * f.y2[1][1] IN
   [i \in 1..NX |->
      LET own == f.y2[i][1]
          extra == IF own >= E THEN 0 ELSE E - own
          lo == Max2(1, UnitStart(i) + 1 - extra)
          hi == Min2(TotalUnits, UnitStart(i) + own + extra)
      IN RDiv(RSum([u \in 1..(hi-lo+1) |-> UnitVal(lo+u-1)]), RI(hi-lo+1))]
----------------------------------------------------------------------------
\* ---- error paths of integral(interval), in the order the code tests them
\*   PieceWiseConstFunc : explicit ValueError checks (inverted, below the support, above the support)
\*   PieceWiseLinFunc   : assert on the start index only; an end beyond the support indexes past the arrays
\*   DiscreteFunc       : assert on both indices
BadOutcome(a, b) ==
   LET below == RLt(a, f.x[1])  above == RLt(f.x[NX], b) IN
   IF Kind = "pwc" THEN "raise:ValueError"
   ELSE IF Kind = "pwl" THEN (IF below THEN "raise:AssertionError" ELSE "raise:IndexError")
   ELSE "raise:AssertionError"
NoQ == [kind |-> "none", a |-> Zero, b |-> Zero, c |-> Zero, d |-> Zero, k |-> 0]
NoR == [branch |-> "none", v |-> Zero, m |-> Zero, xs |-> <<>>, ys |-> <<>>]
Init == f \in {Fn(xs) : xs \in XSets} /\ q = NoQ /\ res = NoR
Pts == IF Kind = "disc" THEN HalfG ELSE Quarter
Choose ==
   /\ q.kind = "none"
   /\ \/ \E a, b \in Pts : RLt(a,b) /\ q' = [NoQ EXCEPT !.kind = "integral", !.a = a, !.b = b]
      \/ q' = [NoQ EXCEPT !.kind = "full"]
      \/ \E a, b, c, d \in HalfG : RLt(a,b) /\ RLe(b,c) /\ RLt(c,d)
            /\ q' = [NoQ EXCEPT !.kind = "multi", !.a = a, !.b = b, !.c = c, !.d = d]
      \/ (Kind # "disc" /\ \E t \in Quarter : q' = [NoQ EXCEPT !.kind = "eval", !.a = t])
      \/ (Kind # "disc" /\ q' = [NoQ EXCEPT !.kind = "plot"])
      \/ (Kind = "disc" /\ \E k \in 0..2 : q' = [NoQ EXCEPT !.kind = "plot", !.k = k])
      \* error paths: intervals that leave the support or are inverted
      \/ \E a \in {RSub(RI(T0), Half), RSub(RI(T0), RI(2))}, b \in {RI(T0+1), RI(T)} :
            q' = [NoQ EXCEPT !.kind = "bad", !.a = a, !.b = b]
      \/ \E a \in {RI(T0), RAdd(RI(T0), Half)}, b \in {RAdd(RI(T), Half), RI(T+3)} :
            q' = [NoQ EXCEPT !.kind = "bad", !.a = a, !.b = b]
      \/ (Kind = "pwc" /\ \E a, b \in HalfG : RLt(b, a) /\ q' = [NoQ EXCEPT !.kind = "bad", !.a = a, !.b = b])
   /\ UNCHANGED <<f, res>>
Exec ==
   /\ q.kind # "none" /\ res.branch = "none"
   /\ res' =
      IF q.kind = "integral" THEN
         (IF Kind = "disc" THEN LET r == IntegralDisc(q.a, q.b) IN [NoR EXCEPT !.branch = r.branch, !.v = r.v, !.m = r.m]
          ELSE LET r == IntegralCont(q.a, q.b) IN [NoR EXCEPT !.branch = r.branch, !.v = r.v])
      ELSE IF q.kind = "full" THEN
         (IF Kind = "disc" THEN [NoR EXCEPT !.branch = "full", !.v = IntegralDiscFull.v, !.m = IntegralDiscFull.m]
          ELSE [NoR EXCEPT !.branch = "full", !.v = IntegralFull])
      ELSE IF q.kind = "multi" THEN
         (IF Kind = "disc" THEN LET r1 == IntegralDisc(q.a, q.b)  r2 == IntegralDisc(q.c, q.d) IN
                                 [NoR EXCEPT !.branch = "multi", !.v = RAdd(r1.v, r2.v), !.m = RAdd(r1.m, r2.m)]
          ELSE [NoR EXCEPT !.branch = "multi", !.v = RAdd(IntegralCont(q.a, q.b).v, IntegralCont(q.c, q.d).v),
                           !.m = RAdd(RSub(q.b, q.a), RSub(q.d, q.c))])
      ELSE IF q.kind = "bad" THEN [NoR EXCEPT !.branch = BadOutcome(q.a, q.b)]
      ELSE IF q.kind = "eval" THEN
         LET r == EvalScalar(q.a) IN [NoR EXCEPT !.branch = r.branch, !.v = r.v, !.m = EvalSeq(q.a)]
      ELSE IF Kind = "disc" THEN
         [NoR EXCEPT !.branch = "plot", !.xs = f.x,
                     !.ys = IF q.k = 0 THEN [i \in 1..NX |-> RDiv(f.y1[i], f.y2[i])] ELSE SmoothCode(q.k)]
      ELSE [NoR EXCEPT !.branch = "plot", !.xs = PlotX, !.ys = PlotY]
   /\ UNCHANGED <<f, q>>
Next == Choose \/ Exec
Spec == Init /\ [][Next]_vars
Done == res.branch # "none"
----------------------------------------------------------------------------
\* C10
IntegralExact == (Done /\ Kind # "disc" /\ q.kind = "integral") => res.v = DefIntegral(q.a, q.b)
FullEqWhole == (Done /\ Kind # "disc" /\ q.kind = "full") => res.v = DefIntegral(f.x[1], f.x[NX])
\* integrals over adjacent intervals add up (checked on the code's formula for every split point)
Additive == (Done /\ Kind # "disc" /\ q.kind = "integral") =>
   \A m \in Quarter : (RLt(q.a, m) /\ RLt(m, q.b)) =>
      res.v = RAdd(IntegralCont(q.a, m).v, IntegralCont(m, q.b).v)
MultiInterval == (Done /\ Kind # "disc" /\ q.kind = "multi") =>
   res.v = RAdd(DefIntegral(q.a, q.b), DefIntegral(q.c, q.d))
EvalRule == (Done /\ q.kind = "eval") => (res.v = DefEval(q.a) /\ res.m = DefEval(q.a))   \* scalar path = sequence path
\* the plottable arrays trace the pieces: consecutive points (x_k, y_k) are the two ends of every piece
Plottable == (Done /\ Kind # "disc" /\ q.kind = "plot") =>
   /\ Len(res.xs) = 2*(NX-1) /\ Len(res.ys) = 2*(NX-1)
   /\ \A k \in 1..(NX-1) : /\ res.xs[2*k-1] = f.x[k] /\ res.xs[2*k] = f.x[k+1]
                           /\ res.ys[2*k-1] = f.y1[k] /\ res.ys[2*k] = f.y2[k]
\* C11
OpenIntervalSums == (Done /\ Kind = "disc" /\ q.kind = "integral") =>
   (res.v = DefDiscSum(1, q.a, q.b) /\ res.m = DefDiscSum(2, q.a, q.b))
DiscFull == (Done /\ Kind = "disc" /\ q.kind = "full") =>
   (res.v = DefDiscSum(1, RI(T0-1), RI(T+1)) /\ res.m = DefDiscSum(2, RI(T0-1), RI(T+1)))
DiscMulti == (Done /\ Kind = "disc" /\ q.kind = "multi") =>
   /\ res.v = RAdd(DefDiscSum(1, q.a, q.b), DefDiscSum(1, q.c, q.d))
   /\ res.m = RAdd(DefDiscSum(2, q.a, q.b), DefDiscSum(2, q.c, q.d))
SmoothingIsUnitMean == (Done /\ Kind = "disc" /\ q.kind = "plot") =>
   /\ res.xs = f.x
   /\ res.ys = IF q.k = 0 THEN [i \in 1..NX |-> RDiv(f.y1[i], f.y2[i])] ELSE DefSmooth(q.k)
\* an interval that is not inside the support is never answered with a number
BadIsRejected == (Done /\ q.kind = "bad") =>
   /\ (RLt(q.b, q.a) \/ RLt(q.a, f.x[1]) \/ RLt(f.x[NX], q.b))
   /\ res.branch \in {"raise:ValueError", "raise:AssertionError", "raise:IndexError"}
Export == Done =>
   PrintT(ToJson([k |-> "query", kind |-> Kind, f |-> f, q |-> q, res |-> res]))
=============================================================================

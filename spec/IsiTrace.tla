------------------------------ MODULE IsiTrace ------------------------------
(* Trace validation (code -> spec) of isi_distance_python: the events recorded by the PYSPIKE_VERIF
   hooks (one per loop iteration, with the cursors and the two current interval lengths) must be a
   behaviour of IsiScan.  A batch of traces is validated in one TLC run: tid is chosen in TInit;
   every logged field is bound to the primed specification variable; a trace whose next event
   matches no enabled action raises `rej`.  All invariants of IsiScan (Correct, InRange,
   CursorBounds, NuPositive) are evaluated on the implementation's own trace.
   With Tr.nosteps = TRUE the step events are ignored (TLC infers the internal steps) - used to
   re-validate a trace when only step events were rejected (hook drift, DESIGN.md 4.2). *)
EXTENDS IsiScan, IOUtils
Traces == JsonDeserialize(IOEnv.TRACE_FILE)
NoTrains == {<<>>}      \* replaces the enumeration of all trains of the scan module (cfg: Trains <- NoTrains)
VARIABLES tid, l, rej
tvars == <<vars, tid, l, rej>>
Tr == Traces[tid]
Ev == Tr.events[l]
ToSeq(x) == [k \in 1..Len(x) |-> x[k]]
TInit == /\ tid \in 1..Len(Traces) /\ l = 1 /\ rej = FALSE
         /\ a = ToSeq(Traces[tid].a) /\ b = ToSeq(Traces[tid].b) /\ mrts = Norm(Traces[tid].mq, 4)
         /\ pc = "start" /\ i1 = 0 /\ i2 = 0 /\ nu1 = 0 /\ nu2 = 0 /\ ev = <<>> /\ vals = <<>> /\ path = <<>>
Logged(name) == l <= Len(Tr.events) /\ Ev.e = name
Match == Ev.i1 = i1' /\ Ev.i2 = i2' /\ Ev.nu1 = nu1' /\ Ev.nu2 = nu2'
Step == Adv1 \/ Adv2 \/ AdvBoth
TStep == \/ (Logged("isi.start") /\ Start /\ Match)
         \/ (Logged("isi.step") /\ Step /\ Match /\ Ev.t = Last(ev'))
         \/ (Logged("isi.ret") /\ Finish /\ Ev.n = Len(vals') /\ ToSeq(Tr.x) = ev')
Silent == Tr.nosteps /\ (Start \/ Step)
TNext == \/ (TStep /\ l' = l+1 /\ UNCHANGED <<tid, rej>>)
         \/ (Silent /\ UNCHANGED <<tid, l, rej>>)
         \/ (pc # "done" /\ ~rej /\ ~ENABLED TStep /\ ~ENABLED Silent /\ rej' = TRUE /\ UNCHANGED <<vars, tid, l>>)
TSpec == TInit /\ [][TNext]_tvars
Verdict == (pc = "done" \/ rej) =>
   PrintT(ToJson([k |-> "verdict", id |-> Tr.id, accepted |-> ~rej, at |-> l, y |-> vals,
                  path |-> path]))
=============================================================================

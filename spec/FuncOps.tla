------------------------------ MODULE FuncOps ------------------------------
(* Constant-free operators on function records [x, y1, y2] shared by FuncObjects.tla (heap
   histories) and Multi.tla (multivariate routes): the three add routines transcribed from
   python_backend.py (add_piece_wise_const_python 487-530, add_piece_wise_lin_python 536-606,
   add_discrete_function_python 612-671; twins in cython_add.pyx), scalar multiplication,
   denotations (one-sided limits), exact integrals and event sums.
     pwc : y1 = piece values, y2 = y1
     pwl : y1 = left limits of the pieces, y2 = right limits
     disc: y1 = values, y2 = multiplicities (rationals n/1); Len(y1) = Len(x) *)
EXTENDS Integers, Sequences, FiniteSets, Rat, Defs
\* ---- add_piece_wise_const_python; cursors 0-based as in the code
RECURSIVE PwcLoop(_,_,_,_,_,_)
PwcLoop(f, g, i1, i2, X, Y) ==
   IF (i1+1 < Len(f.y1)) /\ (i2+1 < Len(g.y1)) THEN
      LET u == f.x[i1+2]  v == g.x[i2+2]
          j1 == IF u <= v THEN i1+1 ELSE i1
          j2 == IF v <= u THEN i2+1 ELSE i2
      IN PwcLoop(f, g, j1, j2, Append(X, IF u <= v THEN u ELSE v), Append(Y, RAdd(f.y1[j1+1], g.y1[j2+1])))
   ELSE IF i1+1 < Len(f.y1) THEN
      [x |-> X \o SubSeq(f.x, i1+2, Len(f.x)),
       y |-> Y \o [k \in 1..(Len(f.y1)-i1-1) |-> RAdd(f.y1[i1+1+k], g.y1[Len(g.y1)])]]
   ELSE IF i2+1 < Len(g.y1) THEN
      [x |-> X \o SubSeq(g.x, i2+2, Len(g.x)),
       y |-> Y \o [k \in 1..(Len(g.y1)-i2-1) |-> RAdd(g.y1[i2+1+k], f.y1[Len(f.y1)])]]
   ELSE [x |-> Append(X, f.x[Len(f.x)]), y |-> Y]
PwcAdd(f, g) == LET r == PwcLoop(f, g, 0, 0, <<f.x[1]>>, <<RAdd(f.y1[1], g.y1[1])>>)
                IN [x |-> r.x, y1 |-> r.y, y2 |-> r.y]
\* ---- add_piece_wise_lin_python
Interp(g, i2, xv) == RAdd(g.y1[i2+1], RDiv(RMul(RSub(g.y2[i2+1], g.y1[i2+1]), RI(xv - g.x[i2+1])), RI(g.x[i2+2] - g.x[i2+1])))
RECURSIVE PwlLoop(_,_,_,_,_,_,_)
PwlLoop(f, g, i1, i2, X, Y1, Y2) ==
   IF (i1+1 < Len(f.y1)) /\ (i2+1 < Len(g.y1)) THEN
      LET u == f.x[i1+2]  v == g.x[i2+2] IN
      IF u < v THEN LET y == Interp(g, i2, u) IN
           PwlLoop(f, g, i1+1, i2, Append(X,u), Append(Y1, RAdd(f.y1[i1+2], y)), Append(Y2, RAdd(f.y2[i1+1], y)))
      ELSE IF u > v THEN LET y == Interp(f, i1, v) IN
           PwlLoop(f, g, i1, i2+1, Append(X,v), Append(Y1, RAdd(g.y1[i2+2], y)), Append(Y2, RAdd(g.y2[i2+1], y)))
      ELSE PwlLoop(f, g, i1+1, i2+1, Append(X,u), Append(Y1, RAdd(f.y1[i1+2], g.y1[i2+2])), Append(Y2, RAdd(f.y2[i1+1], g.y2[i2+1])))
   ELSE
      LET fin == RAdd(f.y2[Len(f.y2)], g.y2[Len(g.y2)]) IN
      IF i1+1 < Len(f.y1) THEN
         LET m == Len(f.y1) - i1 - 1
             ys == [k \in 1..m |-> Interp(g, i2, f.x[i1+1+k])] IN
         [x |-> X \o SubSeq(f.x, i1+2, Len(f.x)),
          y1 |-> Y1 \o [k \in 1..m |-> RAdd(f.y1[i1+1+k], ys[k])],
          y2 |-> Append(Y2 \o [k \in 1..m |-> RAdd(f.y2[i1+k], ys[k])], fin)]
      ELSE IF i2+1 < Len(g.y1) THEN
         LET m == Len(g.y1) - i2 - 1
             ys == [k \in 1..m |-> Interp(f, i1, g.x[i2+1+k])] IN
         [x |-> X \o SubSeq(g.x, i2+2, Len(g.x)),
          y1 |-> Y1 \o [k \in 1..m |-> RAdd(g.y1[i2+1+k], ys[k])],
          y2 |-> Append(Y2 \o [k \in 1..m |-> RAdd(g.y2[i2+k], ys[k])], fin)]
      ELSE [x |-> Append(X, f.x[Len(f.x)]), y1 |-> Y1, y2 |-> Append(Y2, fin)]
PwlAdd(f, g) == PwlLoop(f, g, 0, 0, <<f.x[1]>>, <<RAdd(f.y1[1], g.y1[1])>>, <<>>)
\* ---- add_discrete_function_python: N = index of the last (edge) entry; X, Y, M hold entries 0..index
RECURSIVE DiscLoop(_,_,_,_,_,_,_)
DiscLoop(f, g, i1, i2, X, Y, M) ==
   LET N1 == Len(f.x)-1  N2 == Len(g.x)-1 IN
   IF (i1+1 < N1) /\ (i2+1 < N2) THEN
      LET u == f.x[i1+2]  v == g.x[i2+2] IN
      IF u < v THEN DiscLoop(f, g, i1+1, i2, Append(X,u), Append(Y, f.y1[i1+2]), Append(M, f.y2[i1+2]))
      ELSE IF u > v THEN DiscLoop(f, g, i1, i2+1, Append(X,v), Append(Y, g.y1[i2+2]), Append(M, g.y2[i2+2]))
      ELSE DiscLoop(f, g, i1+1, i2+1, Append(X,u), Append(Y, RAdd(f.y1[i1+2], g.y1[i2+2])), Append(M, RAdd(f.y2[i1+2], g.y2[i2+2])))
   ELSE IF i1+1 < N1 THEN
      [x |-> X \o SubSeq(f.x, i1+2, Len(f.x)), y |-> Y \o SubSeq(f.y1, i1+2, Len(f.x)), m |-> M \o SubSeq(f.y2, i1+2, Len(f.x))]
   ELSE IF i2+1 < N2 THEN
      [x |-> X \o SubSeq(g.x, i2+2, Len(g.x)), y |-> Y \o SubSeq(g.y1, i2+2, Len(g.x)), m |-> M \o SubSeq(g.y2, i2+2, Len(g.x))]
   ELSE [x |-> Append(X, f.x[Len(f.x)]), y |-> Append(Y, RAdd(f.y1[Len(f.x)], g.y1[Len(g.x)])),
         m |-> Append(M, RAdd(f.y2[Len(f.x)], g.y2[Len(g.x)]))]
DiscAdd(f, g) ==
   \* entry 0 is a placeholder that the edge fix-up overwrites with entry 1 (lines 666-667)
   LET r == DiscLoop(f, g, 0, 0, <<f.x[1]>>, <<Zero>>, <<Zero>>) IN
   [x |-> r.x, y1 |-> [r.y EXCEPT ![1] = r.y[2]], y2 |-> [r.m EXCEPT ![1] = r.m[2]]]
AddK(kind, f, g) == IF kind = "pwc" THEN PwcAdd(f, g) ELSE IF kind = "pwl" THEN PwlAdd(f, g) ELSE DiscAdd(f, g)
\* mul_scalar: values only (DiscreteFunc keeps its multiplicities)
ScaleK(kind, f, c) ==
   [x |-> f.x, y1 |-> [k \in 1..Len(f.y1) |-> RMul(f.y1[k], c)],
    y2 |-> IF kind = "pwl" THEN [k \in 1..Len(f.y2) |-> RMul(f.y2[k], c)]
           ELSE IF kind = "pwc" THEN [k \in 1..Len(f.y1) |-> RMul(f.y1[k], c)] ELSE f.y2]
\* ---- denotations of pwc / pwl records with integer breakpoints
PieceR(f, t) == CHOOSE k \in 1..Len(f.y1) : f.x[k] <= t /\ t < f.x[k+1]
PieceL(f, t) == CHOOSE k \in 1..Len(f.y1) : f.x[k] < t /\ t <= f.x[k+1]
ValIn(f, k, t) == RAdd(f.y1[k], RDiv(RMul(RSub(f.y2[k], f.y1[k]), RI(t - f.x[k])), RI(f.x[k+1] - f.x[k])))
RightLim(f, t) == ValIn(f, PieceR(f,t), t)
LeftLim(f, t) == ValIn(f, PieceL(f,t), t)
\* value at a rational time inside piece k
ValInR(f, k, t) == RAdd(f.y1[k], RDiv(RMul(RSub(f.y2[k], f.y1[k]), RSub(t, RI(f.x[k]))), RI(f.x[k+1] - f.x[k])))
\* exact integral over [a, b] (rationals): overlap with every piece, trapezoid rule
IntegralAB(f, a, b) ==
   RSum([k \in 1..Len(f.y1) |->
      LET lo == RMax(a, RI(f.x[k]))  hi == RMin(b, RI(f.x[k+1])) IN
      IF RLt(lo, hi) THEN RMul(RMul(RAdd(ValInR(f,k,lo), ValInR(f,k,hi)), Half), RSub(hi,lo)) ELSE Zero])
IntegralAll(f) == RSum([k \in 1..Len(f.y1) |-> RMul(RI(f.x[k+1]-f.x[k]), RMul(Half, RAdd(f.y1[k], f.y2[k])))])
\* discrete: sums over the interior events strictly inside (a, b)
DiscSumAB(f, which, a, b) ==
   RSum([k \in 1..Len(f.x) |-> IF k > 1 /\ k < Len(f.x) /\ RLt(a, RI(f.x[k])) /\ RLt(RI(f.x[k]), b)
                               THEN (IF which = 1 THEN f.y1[k] ELSE f.y2[k]) ELSE Zero])
DiscSumAll(f, which) ==
   RSum([k \in 1..Len(f.x) |-> IF k > 1 /\ k < Len(f.x) THEN (IF which = 1 THEN f.y1[k] ELSE f.y2[k]) ELSE Zero])
EvSum(f, t, which) ==
   RSum([k \in 1..Len(f.x) |-> IF k > 1 /\ k < Len(f.x) /\ f.x[k] = t THEN (IF which = 1 THEN f.y1[k] ELSE f.y2[k]) ELSE Zero])
EvTimes(f) == {f.x[k] : k \in 2..(Len(f.x)-1)}
StrictlyIncreasing(x) == \A k \in 1..(Len(x)-1) : x[k] < x[k+1]
=============================================================================

---------------------------- MODULE SimAnnTrace ----------------------------
(* Trace validation (code -> spec) of sim_ann_cython: the kernel is executed (source transliteration,
   harness/pyxshim.py) with an observed rand() and an observed permutation array; one event per loop
   iteration  <<position, swapped, acceptance draw consumed>>  plus the returned (p, A, total_iter).
   Every event must be the Accept / Reject step of SimAnn at that position; the cooling steps are not
   logged (they draw nothing and write nothing): Cool is composed silently, and it is deterministic -
   enabled exactly when the inner loop is over.  All invariants of SimAnn are evaluated on the
   implementation's own trace; the returned values must be the state in which the model is done. *)
EXTENDS SimAnn, IOUtils
Traces == JsonDeserialize(IOEnv.TRACE_FILE)
VARIABLES tid, l, rej
tvars == <<vars, tid, l, rej>>
Tr == Traces[tid]
NEv == Len(Tr.events)
ToMat(m) == [n \in Idx |-> [j \in Idx |-> m[n][j]]]
TInit == /\ tid \in 1..Len(Traces) /\ l = 1 /\ rej = FALSE
         /\ D = ToMat(Traces[tid].D)
         /\ p = [n \in Idx |-> n] /\ A = TriU(ToMat(Traces[tid].D))
         /\ k = 0 /\ it = 0 /\ succ = 0 /\ total = 0 /\ tried = {} /\ hist = <<>> /\ last = <<0, 0, 0>>
         /\ pc = IF NLevels = 0 THEN "done" ELSE "loop"
Ev == Tr.events[l]
TStep == /\ l <= NEv
         /\ Ev[1] \in 1..(N-1)
         /\ IF Ev[2] = 1 THEN Accept(Ev[1]) ELSE Reject(Ev[1])
         /\ last' = <<Ev[1], Ev[2], Ev[3]>>           \* the acceptance draw is consumed exactly when the spec says so
RetOK == /\ \A n \in Idx : Tr.p[n] = p[n]
         /\ Tr.A = A /\ Tr.total = total
TNext == \/ (TStep /\ l' = l + 1 /\ UNCHANGED <<tid, rej>>)
         \/ (Cool /\ UNCHANGED <<tid, l, rej>>)
         \/ (/\ pc = "done" /\ l = NEv + 1 /\ ~rej /\ ~RetOK /\ rej' = TRUE /\ UNCHANGED <<vars, tid, l>>)
         \/ (/\ ~rej /\ ~(pc = "done" /\ l = NEv + 1) /\ ~ENABLED TStep /\ ~ENABLED Cool
             /\ rej' = TRUE /\ UNCHANGED <<vars, tid, l>>)
TSpec == TInit /\ [][TNext]_tvars
Final == rej \/ (pc = "done" /\ l = NEv + 1 /\ RetOK)
Verdict == Final => PrintT(ToJson([k |-> "verdict", id |-> Tr.id, accepted |-> ~rej, at |-> l,
                                   level |-> k, it |-> it, A |-> A, p |-> p, total |-> total]))
=============================================================================

------------------------------ MODULE SyncScan ------------------------------
(* L2: the three merged-sequence scans that share one control flow:
     python_backend.py:coincidence_python (376-439)             -> c, mp     (SPIKE-Sync profile)
     directionality_python_backend.py:spike_train_order_profile_python (60-120) -> ord, mp
     directionality_python_backend.py:spike_directionality_profile_python (18-55) -> d1, d2
   and their twins in cython_profiles.pyx / cython_directionality.pyx, with the window
   python_backend.py:get_tau (324-368) / cython_get_tau.pyx.  One action per loop branch; the
   three routines are three observers of the same scan.  The single-pass value routines of the
   compiled backend (coincidence_value_cython, spike_train_order_cython,
   spike_directionality_cython) are the accumulators acc.* of the same scan.
   DevF1 = TRUE reproduces get_tau as it was before the fix of finding F1 (max_tau replaced
   missing neighbours only, it was no upper bound). *)
EXTENDS Integers, Sequences, FiniteSets, TLC, Rat, Defs, Json
CONSTANTS TS, TE, MaxSp, MRTSQ, TauQ, DevF1       \* MRTS = n/4, max_tau = n/4 (0 = None)
VARIABLES a, b, mrts, mtau, pc, i, j, ev, c, mp, ord, d1, d2, hits, acc, path, cs, csw
vars == <<a, b, mrts, mtau, pc, i, j, ev, c, mp, ord, d1, d2, hits, acc, path, cs, csw>>
Neg1 == -1
Neg2 == -2
Neg3 == -3
Grid == TS..TE
Trains == { SortedSeq(S) : S \in {Q \in SUBSET Grid : Cardinality(Q) <= MaxSp} }
P(s, k) == s[k+1]
N1 == Len(a)
N2 == Len(b)
\* ---- get_tau(spikes1, spikes2, i, j, true_max, MRTS), only called here with i, j >= 0
TauCode(ii, jj) == TauCodeGen(a, b, ii, jj, TS, TE, mtau, mrts, DevF1)
Zeros(n) == [k \in 1..n |-> 0]
NoAcc == [coinc |-> 0, mp |-> 0, ordc |-> 0, dir |-> 0]
Init ==
   /\ a \in Trains /\ b = <<>> /\ mrts = Zero /\ mtau = Zero /\ pc = "pick"
   /\ i = -1 /\ j = -1 /\ ev = <<>> /\ c = <<>> /\ mp = <<>> /\ ord = <<>> /\ d1 = <<>> /\ d2 = <<>>
   /\ hits = {} /\ acc = NoAcc /\ path = <<>> /\ cs = {} /\ csw = {}
Pick ==
   /\ pc = "pick"
   /\ b' \in Trains /\ mrts' \in {Norm(n,4) : n \in MRTSQ} /\ mtau' \in {Norm(n,4) : n \in TauQ}
   /\ d1' = Zeros(N1) /\ d2' = Zeros(Len(b'))
   \* ghost: the declarative (pairwise) coincidence sets of (a,b) and of the swapped pair (b,a)
   /\ cs' = Coinc(a, b', TS, TE, mtau', mrts') /\ csw' = Coinc(b', a, TS, TE, mtau', mrts')
   /\ pc' = "loop" /\ UNCHANGED <<a, i, j, ev, c, mp, ord, hits, acc, path>>
Looping == pc = "loop" /\ i + j < N1 + N2 - 2
Cond1 == IF ~(i < N1-1) THEN FALSE ELSE (IF j = N2-1 THEN TRUE ELSE P(a,i+1) < P(b,j+1))
Cond2 == IF ~(j < N2-1) THEN FALSE ELSE (IF i = N1-1 THEN TRUE ELSE P(a,i+1) > P(b,j+1))
MarkPrev(seq, v) == [seq EXCEPT ![Len(seq)] = v]
\* the spike of train 1 comes AFTER its partner in train 2: order -1, d1 = -1, d2 = +1
Adv1 ==
   /\ Looping /\ Cond1
   /\ i' = i+1 /\ ev' = Append(ev, P(a,i+1)) /\ mp' = Append(mp, 1)
   /\ LET hit == IF j > -1 THEN RLt(RI(P(a,i+1)-P(b,j)), TauCode(i+1, j)) ELSE FALSE IN
      /\ c' = IF hit THEN Append(MarkPrev(c, 1), 1) ELSE Append(c, 0)
      /\ ord' = IF hit THEN Append(MarkPrev(ord, -1), -1) ELSE Append(ord, 0)
      /\ d1' = IF hit THEN [d1 EXCEPT ![i+2] = -1] ELSE d1
      /\ d2' = IF hit THEN [d2 EXCEPT ![j+1] = 1] ELSE d2
      /\ hits' = IF hit THEN hits \cup {<<i+1, j, Last(ev)>>} ELSE hits
      /\ acc' = [acc EXCEPT !.coinc = @ + (IF hit THEN 2 ELSE 0), !.mp = @ + 1,
                            !.ordc = @ - (IF hit THEN 2 ELSE 0), !.dir = @ - (IF hit THEN 1 ELSE 0)]
   /\ path' = Append(path, "adv1")
   /\ UNCHANGED <<a, b, mrts, mtau, pc, j, cs, csw>>
Adv2 ==
   /\ Looping /\ ~Cond1 /\ Cond2
   /\ j' = j+1 /\ ev' = Append(ev, P(b,j+1)) /\ mp' = Append(mp, 1)
   /\ LET hit == IF i > -1 THEN RLt(RI(P(b,j+1)-P(a,i)), TauCode(i, j+1)) ELSE FALSE IN
      /\ c' = IF hit THEN Append(MarkPrev(c, 1), 1) ELSE Append(c, 0)
      /\ ord' = IF hit THEN Append(MarkPrev(ord, 1), 1) ELSE Append(ord, 0)
      /\ d1' = IF hit THEN [d1 EXCEPT ![i+1] = 1] ELSE d1
      /\ d2' = IF hit THEN [d2 EXCEPT ![j+2] = -1] ELSE d2
      /\ hits' = IF hit THEN hits \cup {<<i, j+1, Last(ev)>>} ELSE hits
      /\ acc' = [acc EXCEPT !.coinc = @ + (IF hit THEN 2 ELSE 0), !.mp = @ + 1,
                            !.ordc = @ + (IF hit THEN 2 ELSE 0), !.dir = @ + (IF hit THEN 1 ELSE 0)]
   /\ path' = Append(path, "adv2")
   /\ UNCHANGED <<a, b, mrts, mtau, pc, i, cs, csw>>
AdvBoth ==
   /\ Looping /\ ~Cond1 /\ ~Cond2
   /\ i' = i+1 /\ j' = j+1 /\ ev' = Append(ev, P(a,i+1))
   /\ c' = Append(c, 2) /\ mp' = Append(mp, 2) /\ ord' = Append(ord, 0)
   /\ acc' = [acc EXCEPT !.coinc = @ + 2, !.mp = @ + 2]
   /\ path' = Append(path, "both")
   /\ UNCHANGED <<a, b, mrts, mtau, pc, d1, d2, hits, cs, csw>>
\* framing by the two edge entries (lines 424-437); empty-empty gives <<1,1>>
Finish ==
   /\ pc = "loop" /\ ~(i + j < N1 + N2 - 2)
   /\ ev' = <<TS>> \o ev \o <<TE>>
   /\ c' = Frame(c, 1) /\ mp' = Frame(mp, 1) /\ ord' = Frame(ord, 1)
   /\ pc' = "done" /\ path' = Append(path, IF N1 + N2 > 0 THEN "frame" ELSE "empty")
   /\ UNCHANGED <<a, b, mrts, mtau, i, j, d1, d2, hits, acc, cs, csw>>
Next == Pick \/ Adv1 \/ Adv2 \/ AdvBoth \/ Finish
Spec == Init /\ [][Next]_vars
----------------------------------------------------------------------------
CoincSet == cs
DefS == SyncDefP(a, b, TS, TE, cs)
DefO == OrderDefP(a, b, TS, TE, cs)
DefD == DirDefP(a, b, cs)
Correct == pc = "done" => (ev = DefS.x /\ c = DefS.y /\ mp = DefS.mp)              \* C03
OrderCorrect == pc = "done" => (ev = DefO.x /\ ord = DefO.y /\ mp = DefO.mp)       \* C04
DirCorrect == pc = "done" => (d1 = DefD.d1 /\ d2 = DefD.d2)                        \* C04
\* coincidence is one-to-one and mutual: both trains contribute the same number of coincident spikes
OneToOneInv == pc = "done" => OneToOne(CoincSet)
Mutual == pc = "done" =>
   Cardinality({pr[1] : pr \in CoincSet}) = Cardinality({pr[2] : pr \in CoincSet})
\* the event marked at n-1 really is the partner spike (the "BUG?" comment in the code)
PartnerIsPrevious == \A h \in hits : h[3] = (IF P(a,h[1]) < P(b,h[2]) THEN P(a,h[1]) ELSE P(b,h[2]))
\* the hits found by the scan are exactly the pairwise coincidences of distinct times
HitsAreCoinc == pc = "done" =>
   {<<h[1]+1, h[2]+1>> : h \in hits} = {pr \in CoincSet : a[pr[1]] # b[pr[2]]}
\* C16: max_tau > 0 is an upper bound
TauBounded == pc = "done" => (RLt(Zero, mtau) =>
   \A pr \in CoincSet : RLt(RI(AbsI(a[pr[1]] - b[pr[2]])), mtau))
\* single-pass accumulators = sums over the profile (C05 / C12)
InteriorSum(s) == ISum(SubSeq(s, 2, Len(s)-1))
AccCorrect == pc = "done" =>
   /\ acc.coinc = (IF N1+N2 > 0 THEN InteriorSum(c) ELSE 0)
   /\ acc.mp = (IF N1+N2 > 0 THEN InteriorSum(mp) ELSE 0)
   /\ acc.ordc = (IF N1+N2 > 0 THEN InteriorSum(ord) ELSE 0)
   /\ acc.dir = ISum(d1)
\* range (C07): entries between 0 and multiplicity, order in [-1,1]
InRange == \A k \in 1..Len(c) : 0 <= c[k] /\ c[k] <= mp[k] /\ -1 <= ord[k] /\ ord[k] <= 1
\* swapping the trains: same sync profile, negated order profile and directionality (C04, C07)
SwapInv == pc = "done" =>
   /\ csw = {<<pr[2], pr[1]>> : pr \in cs}
   /\ SyncDefP(b, a, TS, TE, csw) = DefS
   /\ LET o == OrderDefP(b, a, TS, TE, csw) IN
         o.x = DefO.x /\ o.mp = DefO.mp /\
         (N1 + N2 > 0 => \A k \in 1..Len(o.y) : o.y[k] = -DefO.y[k])
   /\ LET d == DirDefP(b, a, csw) IN
         d.d1 = [k \in 1..N2 |-> DefD.d2[k]] /\ d.d2 = [k \in 1..N1 |-> DefD.d1[k]]
   /\ ISum(DefD.d1) = -ISum(DefD.d2)
Terminates == pc \notin {"done", "pick"} => ENABLED Next
Export == pc = "done" =>
   PrintT(ToJson([k |-> "sync", a |-> a, b |-> b, ts |-> TS, te |-> TE, mrts |-> mrts, mtau |-> mtau,
                  path |-> path, x |-> ev, c |-> c, mp |-> mp, ord |-> ord, d1 |-> d1, d2 |-> d2,
                  acc |-> acc, ncoinc |-> Cardinality(CoincSet)]))
=============================================================================

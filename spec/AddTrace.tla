------------------------------ MODULE AddTrace ------------------------------
(* Long inputs for the three add routines (code -> spec): recorded calls  f.add(g)  on functions with
   hundreds of breakpoints (integer breakpoints and integer values, so that the JSON hand-over is exact)
   are evaluated by the transcribed routines of FuncOps.tla; TLC exports the specified sum, the harness
   compares it with what the code returned (both backends).  The model checker also evaluates, on every
   recorded call, the properties the heap specification proves on small grids: the breakpoints of the sum
   are the union of the operands' breakpoints, strictly increasing, arrays of consistent length. *)
EXTENDS Integers, Sequences, FiniteSets, TLC, Rat, Defs, FuncOps, Json, IOUtils
Traces == JsonDeserialize(IOEnv.TRACE_FILE)
VARIABLES tid, pc
vars == <<tid, pc>>
ToS(s) == [k \in 1..Len(s) |-> s[k]]
ToR(s) == [k \in 1..Len(s) |-> RI(s[k])]
F(t) == [x |-> ToS(t.x), y1 |-> ToR(t.y1), y2 |-> ToR(t.y2)]
Tr == Traces[tid]
Sum == AddK(Tr.kind, F(Tr.f), F(Tr.g))
XS(s) == {s[k] : k \in 1..Len(s)}
TInit == tid \in 1..Len(Traces) /\ pc = "call"
TNext == pc = "call" /\ pc' = "done" /\ UNCHANGED tid
SumWellFormed == pc = "done" =>
   LET r == Sum IN
   /\ XS(r.x) = XS(ToS(Tr.f.x)) \cup XS(ToS(Tr.g.x))
   /\ (Tr.kind # "disc" => /\ \A k \in 1..(Len(r.x)-1) : r.x[k] < r.x[k+1]
                           /\ Len(r.y1) = Len(r.x) - 1 /\ Len(r.y2) = Len(r.x) - 1)
   /\ (Tr.kind = "disc" => /\ \A k \in 2..(Len(r.x)-2) : r.x[k] < r.x[k+1]
                           /\ Len(r.y1) = Len(r.x) /\ Len(r.y2) = Len(r.x))
Verdict == pc = "done" => PrintT(ToJson([k |-> "addsum", id |-> Tr.id, r |-> Sum]))
=============================================================================

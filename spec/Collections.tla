---------------------------- MODULE Collections ----------------------------
(* L3: spikes.py:merge_spike_trains (148-160), psth.py:psth (11-34) (C20).
     Merge : concatenate all spike arrays, sort; edges of the first train
     Psth  : bin_count = int(T / bin_size) equal bins spanning the recording (numpy.linspace),
             half-open bins [b_k, b_k+1) with a closed last bin (numpy.histogram)
   Trains are sorted sequences of grid times; the same time may occur in several trains.
   Bin sizes are BinQ / 4. *)
EXTENDS Integers, Sequences, FiniteSets, TLC, Rat, Defs, Json, Randomization
CONSTANTS TS, TE, MaxSp, N, BinQ, Sample
VARIABLES tr, bin, res, pc
vars == <<tr, bin, res, pc>>
Neg1 == -1
Neg2 == -2
Grid == TS..TE
AllTrains == { SortedSeq(S) : S \in {Q \in SUBSET Grid : Cardinality(Q) <= MaxSp} }
Pool == IF Sample = 0 THEN AllTrains ELSE RandomSubset(Sample, AllTrains)
NoRes == [merged |-> <<>>, x |-> <<>>, y |-> <<>>, count |-> 0]
Init == tr \in [1..N -> {<<>>}] /\ bin = Zero /\ res = NoRes /\ pc = "pick1"
Pick1 == /\ pc = "pick1" /\ \E a \in AllTrains : tr' = [tr EXCEPT ![1] = a]
         /\ pc' = "pick2" /\ UNCHANGED <<bin, res>>
Pick2 == /\ pc = "pick2" /\ \E rest \in [2..N -> Pool] : tr' = [k \in 1..N |-> IF k = 1 THEN tr[1] ELSE rest[k]]
         /\ \E q \in BinQ : bin' = Norm(q, 4)
         /\ pc' = "ready" /\ UNCHANGED res
\* ---- merge: concatenate, then insertion sort (stable, keeps duplicates)
RECURSIVE Concat(_)
Concat(k) == IF k > N THEN <<>> ELSE tr[k] \o Concat(k+1)
RECURSIVE InsSorted(_,_)
InsSorted(s, v) == IF Len(s) = 0 THEN <<v>> ELSE IF v < s[1] THEN <<v>> \o s ELSE <<s[1]>> \o InsSorted(Tail(s), v)
RECURSIVE SortAll(_,_)
SortAll(s, acc) == IF Len(s) = 0 THEN acc ELSE SortAll(Tail(s), InsSorted(acc, s[1]))
\* ---- psth
BinCount == (RDiv(RI(TE-TS), bin)[1]) \div (RDiv(RI(TE-TS), bin)[2])         \* int(T / bin_size)
Edge(k) == RAdd(RI(TS), RDiv(RI(k*(TE-TS)), RI(BinCount)))                   \* linspace(ts, te, count+1)[k]
InBin(t, k) == IF k < BinCount-1 THEN RLe(Edge(k), RI(t)) /\ RLt(RI(t), Edge(k+1))
               ELSE RLe(Edge(k), RI(t)) /\ RLe(RI(t), Edge(k+1))             \* the last bin is closed
Run == /\ pc = "ready"
       /\ LET all == Concat(1) IN
          res' = [merged |-> SortAll(all, <<>>),
                  x |-> [k \in 1..(BinCount+1) |-> Edge(k-1)],
                  y |-> [k \in 1..BinCount |-> Cardinality({i \in 1..Len(all) : InBin(all[i], k-1)})],
                  count |-> BinCount]
       /\ pc' = "done" /\ UNCHANGED <<tr, bin>>
Next == Pick1 \/ Pick2 \/ Run
Spec == Init /\ [][Next]_vars
Done == pc = "done"
----------------------------------------------------------------------------
CountIn(s, v) == Cardinality({i \in 1..Len(s) : s[i] = v})
\* C20: exactly the multiset union of all input spike times, sorted; empty trains contribute nothing
MergeIsMultisetUnion == Done =>
   /\ \A v \in Grid : CountIn(res.merged, v) = ISum([k \in 1..N |-> CountIn(tr[k], v)])
   /\ \A i \in 1..(Len(res.merged)-1) : res.merged[i] <= res.merged[i+1]
   /\ Len(res.merged) = ISum([k \in 1..N |-> Len(tr[k])])
\* equally wide bins spanning the recording; the values are the spike counts and sum to the total
PsthCounts == Done =>
   /\ res.x[1] = RI(TS) /\ res.x[Len(res.x)] = RI(TE)
   /\ \A k \in 1..(Len(res.x)-2) : RSub(res.x[k+1], res.x[k]) = RSub(res.x[k+2], res.x[k+1])
   /\ ISum(res.y) = ISum([k \in 1..N |-> Len(tr[k])])
   /\ \A k \in 1..res.count : res.y[k] =
         ISum([j \in 1..N |-> Cardinality({i \in 1..Len(tr[j]) : InBin(tr[j][i], k-1)})])
Export == Done => PrintT(ToJson([k |-> "coll", ts |-> TS, te |-> TE, tr |-> tr, bin |-> bin, res |-> res]))
=============================================================================

------------------------------- MODULE Defs -------------------------------
(* L1: DECLARATIVE definitions of the bivariate measures -- the property
   statements C01-C04 written as set / sequence comprehensions, with no
   cursors and no merge scan.  Everything is parametrised by the recording
   interval [ts, te] so that the module has no constants and can be used by
   every other module.  Spike trains are strictly increasing sequences of
   integers inside [ts, te]; MRTS, max_tau are rationals (Rat.tla). *)
EXTENDS Integers, Sequences, FiniteSets, Rat, SequencesExt

SortedSeq(S) == SetToSortSeq(S, <)
SpikesIn(s) == {s[k] : k \in 1..Len(s)}
SMax(S) == CHOOSE x \in S : \A y \in S : y <= x
SMin(S) == CHOOSE x \in S : \A y \in S : y >= x
IsTrain(s, ts, te) == /\ \A k \in 1..Len(s) : ts <= s[k] /\ s[k] <= te
                      /\ \A k \in 1..(Len(s)-1) : s[k] < s[k+1]

(***************************************************************************)
(* C01  ISI profile                                                        *)
(***************************************************************************)
\* breakpoints: the two edges plus every distinct spike time strictly inside
Breaks(a, b, ts, te) ==
   SortedSeq({ts, te} \cup {x \in SpikesIn(a) \cup SpikesIn(b) : ts < x /\ x < te})
\* interval length before the first / after the last spike of a non-empty train
EdgeFirst(s, ts) == IF Len(s) > 1 THEN Max2(s[1]-ts, s[2]-s[1]) ELSE s[1]-ts
EdgeLast(s, te) == LET K == Len(s) IN IF K > 1 THEN Max2(te-s[K], s[K]-s[K-1]) ELSE te-s[K]
\* length of the inter-spike interval of train s that contains the open piece (lo,hi)
Nu(s, lo, hi, ts, te) ==
   IF Len(s) = 0 THEN te - ts ELSE
   LET p == {x \in SpikesIn(s) : x <= lo}
       n == {x \in SpikesIn(s) : x >= hi}
   IN IF p # {} /\ n # {} THEN SMin(n) - SMax(p)
      ELSE IF p = {} THEN EdgeFirst(s, ts)
      ELSE EdgeLast(s, te)
IsiVal(v1, v2, m) == RDiv(RI(AbsI(v1-v2)), RMax(RI(Max2(v1,v2)), m))
IsiDef(a, b, ts, te, m) ==
   LET X == Breaks(a, b, ts, te) IN
   [x |-> X,
    y |-> [k \in 1..(Len(X)-1) |->
             IsiVal(Nu(a, X[k], X[k+1], ts, te), Nu(b, X[k], X[k+1], ts, te), m)]]

(***************************************************************************)
(* C02  SPIKE profile (plain / rate independent / adaptive)                *)
(***************************************************************************)
\* a train without spikes is treated as a train with one spike on each edge
NonEmpty(s, ts, te) == IF Len(s) = 0 THEN <<ts, te>> ELSE s
\* auxiliary spikes outside (or on) the edges
Aux(s, ts, te) ==
   LET N == Len(s) IN
   IF N > 1 THEN <<Min2(ts, s[1]-(s[2]-s[1])), Max2(te, s[N]+(s[N]-s[N-1]))>>
   ELSE <<ts, te>>
\* distance of time x to the nearest spike of the other train (auxiliary spikes included)
Nearest(x, o0, ts, te) ==
   LET o == NonEmpty(o0, ts, te)
       ax == Aux(o, ts, te)
       cand == SpikesIn(o) \cup {ax[1], ax[2]}
   IN SMin({AbsI(x-y) : y \in cand})
\* contribution <<S_n(t), isi_n>> of train s0 (other train o) on the open piece (lo,hi),
\* evaluated at t \in {lo, hi}: linear interpolation between the previous and the following
\* spike, CONSTANT before the first and after the last spike.
Side(s0, o, lo, hi, t, ts, te) ==
   LET s == NonEmpty(s0, ts, te)
       p == {x \in SpikesIn(s) : x <= lo}
       n == {x \in SpikesIn(s) : x >= hi}
   IN IF p # {} /\ n # {} THEN
        LET PP == SMax(p)  FF == SMin(n) IN
        <<RDiv(RI(Nearest(PP,o,ts,te)*(FF-t) + Nearest(FF,o,ts,te)*(t-PP)), RI(FF-PP)), FF-PP>>
      ELSE IF p = {} THEN <<RI(Nearest(SMin(n),o,ts,te)), EdgeFirst(s, ts)>>
      ELSE <<RI(Nearest(SMax(p),o,ts,te)), EdgeLast(s, te)>>
\* instantaneous dissimilarity from the two contributions
DistAtT(i1, i2, s1, s2, m, ri) ==
   LET mean == RDiv(RI(i1+i2), RI(2))
       lim == RMax(m, mean)
   IN IF ri THEN RDiv(RDiv(RAdd(s1,s2), RI(2)), lim)
      ELSE RDiv(RDiv(RAdd(RMul(s1,RI(i2)), RMul(s2,RI(i1))), RI(2)), RMul(mean,lim))
SpikeAt(a, b, lo, hi, t, ts, te, m, ri) ==
   LET u == Side(a, b, lo, hi, t, ts, te)
       v == Side(b, a, lo, hi, t, ts, te)
   IN DistAtT(u[2], v[2], u[1], v[1], m, ri)
SpikeDef(a, b, ts, te, m, ri) ==
   LET X == Breaks(a, b, ts, te) IN
   [x |-> X,
    y1 |-> [k \in 1..(Len(X)-1) |-> SpikeAt(a, b, X[k], X[k+1], X[k], ts, te, m, ri)],
    y2 |-> [k \in 1..(Len(X)-1) |-> SpikeAt(a, b, X[k], X[k+1], X[k+1], ts, te, m, ri)]]

(***************************************************************************)
(* C03 / C16  coincidence window and coincidences                          *)
(***************************************************************************)
\* thresholded interpolation: if t small return min(x,y); if t big return y; else t
Clamp(x, y, t) == LET mab == RMin(x,y) IN IF RLt(t, mab) THEN mab ELSE IF RLt(y, t) THEN y ELSE t
\* a missing neighbour counts as the recording length (at most 2*max_tau when max_tau > 0)
MissingLen(ts, te, mtau) == IF RLt(Zero, mtau) THEN RMin(RI(te-ts), RMul(RI(2), mtau)) ELSE RI(te-ts)
\* window of spike a[i], b[j] (1-based).  bounded = the intended C16 upper bound max_tau.
TauGen(a, b, i, j, ts, te, mtau, m, bounded) ==
   LET L == MissingLen(ts, te, mtau)
       mF1 == IF i < Len(a) THEN RI(a[i+1]-a[i]) ELSE L
       mP1 == IF i > 1 THEN RI(a[i]-a[i-1]) ELSE L
       mF2 == IF j < Len(b) THEN RI(b[j+1]-b[j]) ELSE L
       mP2 == IF j > 1 THEN RI(b[j]-b[j-1]) ELSE L
       h(x) == RDiv(x, RI(2))
       q == RDiv(m, RI(4))
       w == IF a[i] <= b[j] THEN RMin(Clamp(h(mP1), h(mF1), q), Clamp(h(mF2), h(mP2), q))
            ELSE RMin(Clamp(h(mF1), h(mP1), q), Clamp(h(mP2), h(mF2), q))
   IN IF bounded /\ RLt(Zero, mtau) THEN RMin(w, mtau) ELSE w
Tau(a, b, i, j, ts, te, mtau, m) == TauGen(a, b, i, j, ts, te, mtau, m, TRUE)
\* get_tau as the code computes it (python_backend.py:324-368, cython_get_tau.pyx): 0-based
\* indices ii, jj >= 0; the callers pass true_max = MissingLen; dev = TRUE is the code before the
\* fix of finding F1 (no upper bound).
TauCodeGen(a, b, ii, jj, ts, te, mtau, m, dev) ==
   LET L == MissingLen(ts, te, mtau)
       mF1 == IF ii < Len(a)-1 THEN RI(a[ii+2]-a[ii+1]) ELSE L
       mP1 == IF ii > 0 THEN RI(a[ii+1]-a[ii]) ELSE L
       mF2 == IF jj < Len(b)-1 THEN RI(b[jj+2]-b[jj+1]) ELSE L
       mP2 == IF jj > 0 THEN RI(b[jj+1]-b[jj]) ELSE L
       h(x) == RDiv(x, RI(2))
       q == RDiv(m, RI(4))
       w == IF a[ii+1] <= b[jj+1] THEN RMin(Clamp(h(mP1), h(mF1), q), Clamp(h(mF2), h(mP2), q))
            ELSE RMin(Clamp(h(mF1), h(mP1), q), Clamp(h(mP2), h(mF2), q))
   IN IF dev THEN w ELSE RMin(w, h(L))
\* the set of coincident index pairs: a PAIRWISE definition over all index pairs
Coinc(a, b, ts, te, mtau, m) ==
   {pr \in (1..Len(a)) \X (1..Len(b)) :
       RLt(RI(AbsI(a[pr[1]]-b[pr[2]])), Tau(a, b, pr[1], pr[2], ts, te, mtau, m))}
IdxOf(s, t) == CHOOSE k \in 1..Len(s) : s[k] = t
EventTimes(a, b) == SortedSeq(SpikesIn(a) \cup SpikesIn(b))
\* frame a sequence of interior entries by the two edge entries (which never count)
Frame(seq, dflt) == IF Len(seq) = 0 THEN <<dflt, dflt>> ELSE <<seq[1]>> \o seq \o <<seq[Len(seq)]>>
SyncDefP(a, b, ts, te, P) ==
   LET T == EventTimes(a, b)
       cv(t) == IF t \in SpikesIn(a) /\ t \in SpikesIn(b) THEN 2
                ELSE IF t \in SpikesIn(a) THEN (IF \E pr \in P : pr[1] = IdxOf(a,t) THEN 1 ELSE 0)
                ELSE (IF \E pr \in P : pr[2] = IdxOf(b,t) THEN 1 ELSE 0)
       mv(t) == IF t \in SpikesIn(a) /\ t \in SpikesIn(b) THEN 2 ELSE 1
   IN [x |-> <<ts>> \o T \o <<te>>,
       y |-> Frame([k \in 1..Len(T) |-> cv(T[k])], 1),
       mp |-> Frame([k \in 1..Len(T) |-> mv(T[k])], 1)]
SyncDef(a, b, ts, te, mtau, m) == SyncDefP(a, b, ts, te, Coinc(a, b, ts, te, mtau, m))
\* per-spike coincidence indicator of train a with respect to b (used by the filter)
SingleDefP(a, P) == [i \in 1..Len(a) |-> IF \E pr \in P : pr[1] = i THEN 1 ELSE 0]
SingleDef(a, b, ts, te, mtau, m) == SingleDefP(a, Coinc(a, b, ts, te, mtau, m))

(***************************************************************************)
(* C04  spike-train order and directionality                               *)
(***************************************************************************)
\* sign of a coincident pair: +1 if the first train's spike comes first, -1 if second, 0 if simultaneous
PairSign(a, b, pr) == IF a[pr[1]] < b[pr[2]] THEN 1 ELSE IF a[pr[1]] > b[pr[2]] THEN -1 ELSE 0
OrderDefP(a, b, ts, te, P) ==
   LET T == EventTimes(a, b)
       sgA(i) == IF \E pr \in P : pr[1] = i THEN PairSign(a, b, CHOOSE pr \in P : pr[1] = i) ELSE 0
       sgB(j) == IF \E pr \in P : pr[2] = j THEN PairSign(a, b, CHOOSE pr \in P : pr[2] = j) ELSE 0
       cv(t) == IF t \in SpikesIn(a) /\ t \in SpikesIn(b) THEN 0
                ELSE IF t \in SpikesIn(a) THEN sgA(IdxOf(a,t)) ELSE sgB(IdxOf(b,t))
       mv(t) == IF t \in SpikesIn(a) /\ t \in SpikesIn(b) THEN 2 ELSE 1
   IN [x |-> <<ts>> \o T \o <<te>>,
       y |-> Frame([k \in 1..Len(T) |-> cv(T[k])], 1),
       mp |-> Frame([k \in 1..Len(T) |-> mv(T[k])], 1)]
OrderDef(a, b, ts, te, mtau, m) == OrderDefP(a, b, ts, te, Coinc(a, b, ts, te, mtau, m))
\* directionality values: +1 for a spike that leads its partner, -1 for one that follows
DirDefP(a, b, P) ==
   LET sgA(i) == IF \E pr \in P : pr[1] = i THEN PairSign(a, b, CHOOSE pr \in P : pr[1] = i) ELSE 0
       sgB(j) == IF \E pr \in P : pr[2] = j THEN PairSign(a, b, CHOOSE pr \in P : pr[2] = j) ELSE 0
   IN [d1 |-> [i \in 1..Len(a) |-> sgA(i)], d2 |-> [j \in 1..Len(b) |-> -sgB(j)]]
DirDef(a, b, ts, te, mtau, m) == DirDefP(a, b, Coinc(a, b, ts, te, mtau, m))
RECURSIVE ISum(_)
ISum(s) == IF Len(s) = 0 THEN 0 ELSE s[1] + ISum(Tail(s))
(***************************************************************************)
(* C15  automatic threshold: mean square of the pooled interval lengths     *)
(***************************************************************************)
\* every inter-spike interval once, an edge interval (only when the first / last spike is not on
\* the edge) as the larger of the edge distance and the neighbouring interval, a one-spike train its
\* two edge distances, an empty train the recording length.
PoolDefT(s, ts, te) ==
   LET N == Len(s) IN
   IF N = 0 THEN <<te-ts>>
   ELSE IF N = 1 THEN <<s[1]-ts, te-s[1]>>
   ELSE (IF s[1] > ts THEN <<EdgeFirst(s, ts)>> ELSE <<>>)
        \o [k \in 1..(N-1) |-> s[k+1]-s[k]]
        \o (IF s[N] < te THEN <<EdgeLast(s, te)>> ELSE <<>>)
SqSum(p) == ISum([k \in 1..Len(p) |-> p[k]*p[k]])
\* pooled over a list of trains
AutoSqList(l, ts, te) ==
   Norm(ISum([k \in 1..Len(l) |-> SqSum(PoolDefT(l[k], ts, te))]), ISum([k \in 1..Len(l) |-> Len(PoolDefT(l[k], ts, te))]))
\* one-to-one: no spike takes part in two coincidences
OneToOne(P) == \A p1, p2 \in P : (p1[1] = p2[1] \/ p1[2] = p2[2]) => p1 = p2
=============================================================================

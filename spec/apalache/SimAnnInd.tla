---------------------------- MODULE SimAnnInd ----------------------------
(* Apalache: the invariant AIsObjective /\ PermInv of SimAnn.tla is INDUCTIVE for every integer
   antisymmetric matrix of size N (unbounded entries), not only for the value sets TLC enumerates.
   Self-contained restatement of the Accept / Reject step on (D, p, A). *)
EXTENDS Integers, Sequences, Apalache
N == 4
Idx == 1..N
VARIABLES
  \* @type: Int -> (Int -> Int);
  D,
  \* @type: Int -> Int;
  p,
  \* @type: Int;
  A
\* @type: (Int -> (Int -> Int), Int -> Int) => Int;
Obj(M, q) == M[q[1]][q[2]] + M[q[1]][q[3]] + M[q[1]][q[4]] + M[q[2]][q[3]] + M[q[2]][q[4]] + M[q[3]][q[4]]
Antisym == \A n \in Idx, m \in Idx : D[n][m] = -D[m][n]
Perm == (\A n \in Idx : p[n] \in Idx) /\ (\A n \in Idx, m \in Idx : n # m => p[n] # p[m])
IndInv == /\ DOMAIN D = Idx /\ (\A n \in Idx : DOMAIN D[n] = Idx)
          /\ DOMAIN p = Idx
          /\ Antisym /\ Perm /\ A = Obj(D, p)
IndInit == /\ D = Gen(N) /\ p = Gen(N) /\ A = Gen(1) /\ IndInv
Accept(i) == /\ p' = [p EXCEPT ![i] = p[i+1], ![i+1] = p[i]]
             /\ A' = A - 2 * D[p[i]][p[i+1]]
             /\ UNCHANGED D
Reject == UNCHANGED <<D, p, A>>
Next == (\E i \in 1..(N-1) : Accept(i)) \/ Reject
=============================================================================

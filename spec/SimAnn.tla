------------------------------- MODULE SimAnn -------------------------------
(* L2: the simulated-annealing search for the optimal spike-train order
   (cython_simulated_annealing.pyx:sim_ann_cython 43-85, called by
   spike_directionality.py:_optimal_spike_train_sorting_from_matrix 488-520 and
   optimal_spike_train_sorting 525-549; permutate_matrix 554-567).

   The routine is a randomised state machine: its two sources of nondeterminism are the two
   rand() draws of an iteration -- the position of the proposed neighbour swap and, ONLY when the
   swap does not improve the objective, the acceptance draw.  Both are modelled as the choice of
   the action (Accept(i) / Reject(i)); the temperature is abstracted to the number k of cooling
   steps done (T = T_start * alpha^k): an improving swap is always taken, a non-improving one may
   or may not be taken, at any temperature.

   One action per loop branch:
     Accept(i)   lines 64-73   the proposal (i, i+1) is swapped, A is updated INCREMENTALLY
     Reject(i)   lines 64-69,74  only possible when the swap does not improve (delta_A <= 0)
     Cool        lines 75-79   the inner loop is over: total_iter, T *= alpha, convergence test
   D is an antisymmetric matrix (what spike_directionality_matrix returns); that is what makes the
   incremental update delta_A = -2*D[p[i],p[i+1]] the exact change of the objective.

   Properties (none of the 20 listed ones talks about this routine: coverage extension, DESIGN.md 11)
     PermInv         p is always a permutation of the trains
     AIsObjective    the running A is the upper-triangle sum of the permuted matrix, in every state
     ConvergedLocal  on convergence no proposed neighbour swap of the last level improves A
     DrawRule        the acceptance draw is consumed exactly when the swap does not improve
     Terminates      every behaviour reaches "done" (checked as a liveness property)           *)
EXTENDS Integers, Sequences, FiniteSets, TLC, Json
CONSTANTS N,          \* number of spike trains (N >= 2: the routine draws rand() % (N-1))
          VRaw, VOff, \* upper-triangle entries of D range over {v - VOff : v \in VRaw}
          ItF, SuccF, \* the inner loop runs while it < ItF*N and succ < SuccF*N   (code: 100, 10)
          Levels,     \* number of temperatures before T <= T_end                   (code: 110)
          Hist,       \* TRUE: keep the sequence of draws (for the export of whole behaviours)
          ColdFrom    \* action constraint Cold: from this level on only improving swaps are accepted
VARIABLES D, p, A, k, it, succ, total, pc, tried, hist, last
vars == <<D, p, A, k, it, succ, total, pc, tried, hist, last>>
View == <<D, p, A, k, it, succ, total, pc, tried>>
Idx == 1..N
VSet == {v - VOff : v \in VRaw}
Pairs == {<<n, m>> \in Idx \X Idx : n < m}
\* upper-triangle sum (np.triu(D, 0): the diagonal is included; it is zero for antisymmetric D)
RECURSIVE RowSum(_,_,_), TriUFrom(_,_)
RowSum(M, n, m) == IF m > N THEN 0 ELSE M[n][m] + RowSum(M, n, m+1)
TriUFrom(M, n) == IF n > N THEN 0 ELSE RowSum(M, n, n) + TriUFrom(M, n+1)
TriU(M) == TriUFrom(M, 1)
Permuted(M, q) == [n \in Idx |-> [m \in Idx |-> M[q[n]][q[m]]]]       \* permutate_matrix
Antisym(M) == \A n, m \in Idx : M[n][m] = -M[m][n]
MaxD == LET S == {D[n][m] : n, m \in Idx} IN CHOOSE x \in S : \A y \in S : y <= x
\* the wrapper starts at T_start = 2*max(D): an all-zero matrix gives T = 0 > T_end = 0 FALSE
NLevels == IF MaxD = 0 THEN 0 ELSE Levels
Delta(i) == -2 * D[p[i]][p[i+1]]
Swap(q, i) == [q EXCEPT ![i] = q[i+1], ![i+1] = q[i]]
----------------------------------------------------------------------------
Matrices == { [n \in Idx |-> [m \in Idx |-> IF n < m THEN u[<<n, m>>] ELSE IF n > m THEN -u[<<m, n>>] ELSE 0]] :
                u \in [Pairs -> VSet] }
Init == /\ D \in Matrices
        /\ p = [n \in Idx |-> n] /\ A = TriU(D)
        /\ k = 0 /\ it = 0 /\ succ = 0 /\ total = 0 /\ tried = {} /\ hist = <<>> /\ last = <<0, 0, 0>>
        /\ pc = IF NLevels = 0 THEN "done" ELSE "loop"
InLoop == pc = "loop" /\ it < ItF * N /\ succ < SuccF * N
Rec(i, acc) == IF Hist THEN Append(hist, <<i, IF acc THEN 1 ELSE 0, IF Delta(i) > 0 THEN 1 ELSE 0>>) ELSE hist
Accept(i) == /\ InLoop
             /\ p' = Swap(p, i) /\ A' = A + Delta(i)
             /\ succ' = succ + 1 /\ it' = it + 1 /\ tried' = tried \cup {i}
             /\ hist' = Rec(i, TRUE) /\ last' = <<i, 1, IF Delta(i) > 0 THEN 0 ELSE 1>>
             /\ UNCHANGED <<D, k, total, pc>>
Reject(i) == /\ InLoop /\ Delta(i) <= 0
             /\ it' = it + 1 /\ tried' = tried \cup {i}
             /\ hist' = Rec(i, FALSE) /\ last' = <<i, 0, 1>>
             /\ UNCHANGED <<D, p, A, succ, k, total, pc>>
Cool == /\ pc = "loop" /\ ~(it < ItF * N /\ succ < SuccF * N)
        /\ total' = total + it /\ k' = k + 1
        /\ IF succ = 0 \/ k + 1 >= NLevels
           THEN pc' = "done" /\ UNCHANGED <<it, succ, tried>>
           ELSE pc' = "loop" /\ it' = 0 /\ succ' = 0 /\ tried' = {}
        /\ last' = <<0, 0, 0>>
        /\ UNCHANGED <<D, p, A, hist>>
Next == \/ \E i \in 1..(N-1) : Accept(i) \/ Reject(i)
        \/ Cool
Spec == Init /\ [][Next]_vars /\ WF_vars(Next)
----------------------------------------------------------------------------
PermInv == {p[n] : n \in Idx} = Idx
AIsObjective == A = TriU(Permuted(D, p))
Converged == pc = "done" /\ NLevels > 0 /\ succ = 0
ConvergedLocal == Converged => \A i \in tried : D[p[i]][p[i+1]] >= 0
\* last = <<position, accepted, acceptance draw consumed>>: the draw is consumed iff the swap did not improve;
\* an improving proposal is never rejected
DrawRule == [][ (last'[1] # 0) => /\ (last'[3] = 1) = (-2 * D[p[last'[1]]][p[last'[1]+1]] <= 0)
                                  /\ (last'[2] = 0 => -2 * D[p[last'[1]]][p[last'[1]+1]] <= 0) ]_vars
Bounded == /\ it <= ItF * N /\ succ <= SuccF * N /\ succ <= it /\ k <= Levels
           /\ total <= k * ItF * N
Terminates == <>(pc = "done")
\* a sub-behaviour set used to steer simulation towards convergence: what happens at low temperature,
\* where exp(delta_A/T) underflows and no worsening swap is ever accepted (a swap that leaves A unchanged
\* - exp(0) = 1 - can be accepted at any temperature: on such plateaus the search runs through all temperatures)
Cold == (last'[1] # 0 /\ k >= ColdFrom /\ last'[2] = 1) => D[p[last'[1]]][p[last'[1]+1]] <= 0
\* the result is never worse than what only-improving moves would leave behind?  NO: the search may
\* accept worsening swaps.  What does hold: the returned A is the objective of the returned order.
Done == pc = "done"
Export == Done => PrintT(ToJson([k |-> "simann", D |-> D, hist |-> hist, p |-> p, A |-> A, total |-> total,
                                 levels |-> k, conv |-> (succ = 0), nlev |-> NLevels]))
=============================================================================

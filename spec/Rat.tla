------------------------------- MODULE Rat -------------------------------
(* L0: exact rational arithmetic on normalised pairs <<num, den>>, den > 0.
   TLC integers are 32 bit and TLC aborts on overflow, so an overflow is a
   loud machinery failure and never a silent wrong verdict. *)
EXTENDS Integers, Sequences
RECURSIVE GCD(_,_)
GCD(a,b) == IF b = 0 THEN a ELSE GCD(b, a % b)
AbsI(a) == IF a < 0 THEN -a ELSE a
Max2(x,y) == IF x > y THEN x ELSE y
Min2(x,y) == IF x < y THEN x ELSE y
Norm(n,d) == LET g == GCD(AbsI(n), AbsI(d))
                 s == IF d < 0 THEN -1 ELSE 1
             IN IF n = 0 THEN <<0,1>> ELSE <<s*(n \div g), s*(d \div g)>>
RI(n) == <<n,1>>
Zero == <<0,1>>
One == <<1,1>>
Half == <<1,2>>
\* sums over the least common denominator and products with cross-cancellation keep the
\* intermediate integers small (TLC integers are 32 bit)
RAdd(a,b) == IF a[2] = b[2] THEN Norm(a[1]+b[1], a[2]) ELSE
             LET g == GCD(a[2], b[2]) IN Norm(a[1]*(b[2] \div g) + b[1]*(a[2] \div g), (a[2] \div g)*b[2])
RSub(a,b) == IF a[2] = b[2] THEN Norm(a[1]-b[1], a[2]) ELSE
             LET g == GCD(a[2], b[2]) IN Norm(a[1]*(b[2] \div g) - b[1]*(a[2] \div g), (a[2] \div g)*b[2])
RMul(a,b) == IF a[1] = 0 \/ b[1] = 0 THEN <<0,1>> ELSE
             LET g1 == GCD(AbsI(a[1]), b[2])  g2 == GCD(AbsI(b[1]), a[2]) IN
             <<(a[1] \div g1)*(b[1] \div g2), (a[2] \div g2)*(b[2] \div g1)>>
\* a / b; a zero divisor only occurs in values that the algorithms discard (trimmed zero-length pieces)
RDiv(a,b) == IF b[1] = 0 THEN (IF a[1] = 0 THEN <<0,1>> ELSE <<1,0>>)
             ELSE RMul(a, IF b[1] < 0 THEN <<-b[2], -b[1]>> ELSE <<b[2], b[1]>>)
RNeg(a) == <<-a[1], a[2]>>
RLt(a,b) == IF a[2] = b[2] THEN a[1] < b[1] ELSE
            LET g == GCD(a[2], b[2]) IN a[1]*(b[2] \div g) < b[1]*(a[2] \div g)
RLe(a,b) == IF a[2] = b[2] THEN a[1] <= b[1] ELSE
            LET g == GCD(a[2], b[2]) IN a[1]*(b[2] \div g) <= b[1]*(a[2] \div g)
RMax(a,b) == IF RLt(a,b) THEN b ELSE a
RMin(a,b) == IF RLt(a,b) THEN a ELSE b
RAbs(a) == <<AbsI(a[1]), a[2]>>
RECURSIVE RSum(_)
RSum(s) == IF Len(s) = 0 THEN Zero ELSE RAdd(s[1], RSum(Tail(s)))
RInUnit(a) == RLe(Zero, a) /\ RLe(a, One)
=============================================================================

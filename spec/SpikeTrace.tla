----------------------------- MODULE SpikeTrace -----------------------------
(* Trace validation (code -> spec) of spike_distance_python against SpikeScan; see IsiTrace.tla.
   Logged per event: both cursors and, per train, previous / following spike time, their
   nearest-spike distances and the current interval length (all integers on integer inputs). *)
EXTENDS SpikeScan, IOUtils
Traces == JsonDeserialize(IOEnv.TRACE_FILE)
NoTrains == {<<>>}      \* replaces the enumeration of all trains of the scan module (cfg: Trains <- NoTrains)
VARIABLES tid, l, rej
tvars == <<vars, tid, l, rej>>
Tr == Traces[tid]
Ev == Tr.events[l]
ToSeq(x) == [k \in 1..Len(x) |-> x[k]]
TInit == /\ tid \in 1..Len(Traces) /\ l = 1 /\ rej = FALSE
         /\ a = ToSeq(Traces[tid].a) /\ b = ToSeq(Traces[tid].b) /\ mrts = Norm(Traces[tid].mq, 4)
         /\ ri = Traces[tid].ri /\ pc = "start" /\ st = NoSt /\ path = <<>>
Logged(name) == l <= Len(Tr.events) /\ Ev.e = name
MatchTrain(r, i, tp, tf, dtp, dtf, isi) ==
   r.idx = i /\ r.tp = tp /\ r.tf = tf /\ r.dtp = dtp /\ r.dtf = dtf /\ r.isi = isi
Match == /\ MatchTrain(st'.r1, Ev.i1, Ev.tp1, Ev.tf1, Ev.dtp1, Ev.dtf1, Ev.isi1)
         /\ MatchTrain(st'.r2, Ev.i2, Ev.tp2, Ev.tf2, Ev.dtp2, Ev.dtf2, Ev.isi2)
Step == Adv1 \/ Adv2 \/ AdvBoth
TStep == \/ (Logged("spike.start") /\ Start /\ Match)
         \/ (Logged("spike.step") /\ Step /\ Match /\ Ev.t = Last(st'.ev))
         \/ (Logged("spike.ret") /\ Finish /\ Ev.n = Len(st'.ys) /\ ToSeq(Tr.x) = st'.ev)
Silent == Tr.nosteps /\ (Start \/ Step)
TNext == \/ (TStep /\ l' = l+1 /\ UNCHANGED <<tid, rej>>)
         \/ (Silent /\ UNCHANGED <<tid, l, rej>>)
         \/ (pc # "done" /\ ~rej /\ ~ENABLED TStep /\ ~ENABLED Silent /\ rej' = TRUE /\ UNCHANGED <<vars, tid, l>>)
TSpec == TInit /\ [][TNext]_tvars
Verdict == (pc = "done" \/ rej) =>
   PrintT(ToJson([k |-> "verdict", id |-> Tr.id, accepted |-> ~rej, at |-> l,
                  y1 |-> IF pc = "done" THEN st.ys ELSE <<>>, y2 |-> IF pc = "done" THEN st.ye ELSE <<>>, path |-> path]))
=============================================================================

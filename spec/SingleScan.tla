----------------------------- MODULE SingleScan -----------------------------
(* L2: python_backend.py:coincidence_single_python (445-481) and its twin
   cython_profiles.pyx:coincidence_single_profile_cython -- the per-spike coincidence
   indicator of train a with respect to train b used by filter_by_spike_sync.
   One action per step of the inner while loop and per check. *)
EXTENDS Integers, Sequences, FiniteSets, TLC, Rat, Defs, Json
CONSTANTS TS, TE, MaxSp, MRTSQ, TauQ, DevF1
VARIABLES a, b, mrts, mtau, pc, i, j, c, cs, path
vars == <<a, b, mrts, mtau, pc, i, j, c, cs, path>>
Neg1 == -1
Neg2 == -2
Neg3 == -3
Grid == TS..TE
Trains == { SortedSeq(S) : S \in {Q \in SUBSET Grid : Cardinality(Q) <= MaxSp} }
P(s, k) == s[k+1]
N1 == Len(a)
N2 == Len(b)
TauCode(ii, jj) == TauCodeGen(a, b, ii, jj, TS, TE, mtau, mrts, DevF1)
Init ==
   /\ a \in Trains /\ b = <<>> /\ mrts = Zero /\ mtau = Zero /\ pc = "pick"
   /\ i = 0 /\ j = -1 /\ c = <<>> /\ cs = {} /\ path = <<>>
Pick ==
   /\ pc = "pick"
   /\ b' \in Trains /\ mrts' \in {Norm(n,4) : n \in MRTSQ} /\ mtau' \in {Norm(n,4) : n \in TauQ}
   /\ c' = [k \in 1..N1 |-> 0]
   /\ cs' = Coinc(a, b', TS, TE, mtau', mrts')
   /\ pc' = IF N1 = 0 THEN "done" ELSE "while"
   /\ UNCHANGED <<a, i, j, path>>
\* while j < N2-1 and spikes2[j+1] < spikes1[i]: j += 1
WhileCond == IF j < N2-1 THEN P(b,j+1) < P(a,i) ELSE FALSE
MoveJ ==
   /\ pc = "while" /\ WhileCond
   /\ j' = j+1 /\ path' = Append(path, "move")
   /\ UNCHANGED <<a, b, mrts, mtau, pc, i, c, cs>>
\* if j > -1 and abs(spikes1[i]-spikes2[j]) < tau: c[i] = 1
CheckPrev ==
   /\ pc = "while" /\ ~WhileCond
   /\ LET hit == IF j > -1 THEN RLt(RI(AbsI(P(a,i)-P(b,j))), TauCode(i, j)) ELSE FALSE IN
      /\ c' = IF hit THEN [c EXCEPT ![i+1] = 1] ELSE c
      /\ path' = Append(path, IF hit THEN "prev-hit" ELSE "prev")
   /\ pc' = "next"
   /\ UNCHANGED <<a, b, mrts, mtau, i, j, cs>>
\* if j < N2-1 and (j < 0 or spikes2[j] < spikes1[i]): j += 1; check the next spike
NextCond == IF j < N2-1 THEN (IF j < 0 THEN TRUE ELSE P(b,j) < P(a,i)) ELSE FALSE
CheckNext ==
   /\ pc = "next"
   /\ IF NextCond
      THEN LET hit == RLt(RI(AbsI(P(b,j+1)-P(a,i))), TauCode(i, j+1)) IN
           /\ j' = j+1
           /\ c' = IF hit THEN [c EXCEPT ![i+1] = 1] ELSE c
           /\ path' = Append(path, IF hit THEN "next-hit" ELSE "next")
      ELSE /\ j' = j /\ c' = c /\ path' = Append(path, "skip")
   /\ i' = i+1
   /\ pc' = IF i+1 < N1 THEN "while" ELSE "done"
   /\ UNCHANGED <<a, b, mrts, mtau, cs>>
Next == Pick \/ MoveJ \/ CheckPrev \/ CheckNext
Spec == Init /\ [][Next]_vars
----------------------------------------------------------------------------
\* the per-spike indicator agrees with the pairwise definition, hence with the profile (C03)
Correct == pc = "done" => c = SingleDefP(a, cs)
\* j never runs ahead: b[j] is the last spike before a[i] or the first one not before it
CursorBounds == -1 <= j /\ j <= N2-1 /\ 0 <= i /\ i <= N1
Terminates == pc \notin {"done", "pick"} => ENABLED Next
Export == pc = "done" =>
   PrintT(ToJson([k |-> "single", a |-> a, b |-> b, ts |-> TS, te |-> TE, mrts |-> mrts, mtau |-> mtau,
                  path |-> path, c |-> c]))
=============================================================================

----------------------------- MODULE Reconcile -----------------------------
(* L2/L3: spikes.py:reconcile_spike_trains (lines 170-194) and its bivariate wrapper: the
   normalisation every measure applies to its input by default (C13).
     1. every train: unique + sort (np.unique)
     2. global edges: smallest start, largest end
     3. clip: keep t with  tStart - Eps < t < tEnd + Eps
     4. rebuild every train on [tStart, tEnd]
   Input trains are MESSY: arbitrary sequences (any order, repetitions, values outside the
   edges) with per-train edges.  Eps is the slack in grid units (the code uses 1e-6 s). *)
EXTENDS Integers, Sequences, FiniteSets, TLC, Rat, Defs, Json, Randomization
Rev0(s) == [n \in 1..Len(s) |-> s[Len(s)+1-n]]
CONSTANTS VLo, VHi,        \* spike values VLo..VHi
          MaxLen,          \* entries per messy train
          N,
          EdgeCodes,       \* per-train edges: 100*(s - VLo) + (e - VLo)
          Eps,
          Sample           \* 0: exhaustive; k: trains 2..N drawn from a random k-subset
VARIABLES inp, out, pc
vars == <<inp, out, pc>>
Neg1 == -1
Neg4 == -4
Neg2 == -2
Neg20 == -20
Vals == VLo..VHi
Seqs(n) == UNION {[1..k -> Vals] : k \in 0..n}
Messy == { [sp |-> s, ts |-> VLo + (c \div 100), te |-> VLo + (c % 100)] : s \in Seqs(MaxLen), c \in EdgeCodes }
Pool == IF Sample = 0 THEN Messy ELSE RandomSubset(Sample, Messy)
Init == inp \in [1..N -> {[sp |-> <<>>, ts |-> 0, te |-> 0]}] /\ out = <<>> /\ pc = "pick1"
Pick1 == /\ pc = "pick1" /\ \E m \in Messy : inp' = [inp EXCEPT ![1] = m]
         /\ pc' = "pick2" /\ UNCHANGED out
Pick2 == /\ pc = "pick2" /\ \E rest \in [2..N -> Pool] : inp' = [k \in 1..N |-> IF k = 1 THEN inp[1] ELSE rest[k]]
         /\ pc' = "ready" /\ UNCHANGED out
\* ---- the four steps
Unique(s) == SortedSeq(SpikesIn(s))
GStart(l) == SMin({l[k].ts : k \in 1..Len(l)})
GEnd(l) == SMax({l[k].te : k \in 1..Len(l)})
Clip(s, lo, hi) == SelectSeq(s, LAMBDA t : t > lo - Eps /\ t < hi + Eps)
Rec(l) == [k \in 1..Len(l) |-> [sp |-> Clip(Unique(l[k].sp), GStart(l), GEnd(l)), ts |-> GStart(l), te |-> GEnd(l)]]
Run == /\ pc = "ready" /\ out' = Rec(inp) /\ pc' = "done" /\ UNCHANGED inp
Next == Pick1 \/ Pick2 \/ Run
Spec == Init /\ [][Next]_vars
----------------------------------------------------------------------------
Done == pc = "done"
\* C13: common interval from the smallest start to the largest end; strictly increasing; exactly the
\* distinct input spike times inside the interval (tolerance Eps), nothing else
ReconcileDef == Done => \A k \in 1..N :
   /\ out[k].ts = GStart(inp) /\ out[k].te = GEnd(inp)
   /\ \A i \in 1..(Len(out[k].sp)-1) : out[k].sp[i] < out[k].sp[i+1]
   /\ SpikesIn(out[k].sp) = {t \in SpikesIn(inp[k].sp) : t > GStart(inp) - Eps /\ t < GEnd(inp) + Eps}
Idempotent == Done => Rec(out) = out
\* the order of the spike times within a train and repetitions are irrelevant
OrderIrrelevant == Done => \A k \in 1..N :
   Rec([inp EXCEPT ![k].sp = Rev0(inp[k].sp)]) = out
Export == Done => PrintT(ToJson([k |-> "reconcile", inp |-> inp, out |-> out, eps |-> Eps]))
=============================================================================

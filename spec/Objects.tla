------------------------------ MODULE Objects ------------------------------
(* L3: a session with SpikeTrain OBJECTS (SpikeTrain.py 11-75) and the process-wide fallback
   warning (__init__.py 56-68, "Warn exactly once"), as a state machine:

     New(d, sp, form, sorted)   SpikeTrain(sp, edges, is_sorted)  edges = (T0, T1) | T1 (then T0 = 0)
     SortOp(d)                  d.sort()
     Copy(d, s)                 d = s.copy()
     Write(d, k, v)             d.spikes[k] = v           (the user edits a train in place)
     Measure(fn, i, j)          a bivariate measure / an add of two profiles of trains i, j:
                                prints the fallback warning iff the compiled kernels are not
                                importable and no warning was printed or disabled before
     Disable                    pyspike.disable_backend_warning = True

   Properties (coverage extension X02, DESIGN.md 11.2; C13 / C18 only touch the edges of this):
     WarnOnce        at most one warning per session; none with the compiled backend
     WarnIffNeeded   a warning was printed iff some measure fell back before any Disable
     SortedAfterSort / SortKeepsMultiset / SortIdempotent
     CopyIsEqual, OnlyTargetChanges   (copies are independent: Write on one never shows in another)
     NonEmptyView    get_spikes_non_empty: the edges for an empty train, the train's spikes otherwise
     ScalarEdge      a single number as edges means [0, T1]                                          *)
EXTENDS Integers, Sequences, FiniteSets, TLC, Json
CONSTANTS T0, T1,        \* edges handed over in the pair form
          Vals,          \* spike times that can be written
          MaxLen, MaxOps,
          Compiled       \* TRUE: the kernels are importable (no fallback, no warning)
VARIABLES heap, warned, printed, fellback, nops, op
vars == <<heap, warned, printed, fellback, nops, op>>
View == <<heap, warned, printed, fellback, nops>>
Neg1 == -1
Neg2 == -2
Ids == 1..2
Null == [sp |-> <<>>, ts |-> 0, te |-> -1, live |-> FALSE]
NoOp == [f |-> "init", d |-> 0, s |-> 0, k |-> 0, v |-> 0, form |-> "", sorted |-> TRUE, sp |-> <<>>]
Seqs == UNION { [1..n -> Vals] : n \in 0..MaxLen }
RECURSIVE Insert(_,_), SortUp(_)
Insert(s, x) == IF s = <<>> THEN <<x>> ELSE IF x < s[1] THEN <<x>> \o s ELSE <<s[1]>> \o Insert(Tail(s), x)
SortUp(s) == IF s = <<>> THEN <<>> ELSE Insert(SortUp(Tail(s)), s[1])
Count(s, x) == Cardinality({i \in 1..Len(s) : s[i] = x})
SameMultiset(s, t) == Len(s) = Len(t) /\ \A x \in Vals : Count(s, x) = Count(t, x)
IsSorted(s) == \A i \in 1..(Len(s)-1) : s[i] <= s[i+1]
Live(d) == heap[d].live
----------------------------------------------------------------------------
Init == /\ heap = [d \in Ids |-> Null] /\ warned = FALSE /\ printed = 0 /\ fellback = FALSE /\ nops = 0 /\ op = NoOp
Step(o) == nops < MaxOps /\ nops' = nops + 1 /\ op' = o
New(d, sp, form, sorted) ==
   /\ Step([NoOp EXCEPT !.f = "new", !.d = d, !.form = form, !.sorted = sorted, !.sp = sp])
   /\ heap' = [heap EXCEPT ![d] = [sp |-> IF sorted THEN sp ELSE SortUp(sp),
                                    ts |-> IF form = "scalar" THEN 0 ELSE T0, te |-> T1, live |-> TRUE]]
   /\ UNCHANGED <<warned, printed, fellback>>
SortOp(d) == /\ Live(d) /\ Step([NoOp EXCEPT !.f = "sort", !.d = d])
             /\ heap' = [heap EXCEPT ![d].sp = SortUp(heap[d].sp)]
             /\ UNCHANGED <<warned, printed, fellback>>
Copy(d, s) == /\ Live(s) /\ d # s /\ Step([NoOp EXCEPT !.f = "copy", !.d = d, !.s = s])
              /\ heap' = [heap EXCEPT ![d] = heap[s]]
              /\ UNCHANGED <<warned, printed, fellback>>
Write(d, k, v) == /\ Live(d) /\ k \in 1..Len(heap[d].sp) /\ Step([NoOp EXCEPT !.f = "write", !.d = d, !.k = k, !.v = v])
                  /\ heap' = [heap EXCEPT ![d].sp[k] = v]
                  /\ UNCHANGED <<warned, printed, fellback>>
Fns == {"isi_profile", "spike_profile", "spike_sync_profile", "spike_sync", "spike_directionality",
        "spike_train_order_profile", "spike_train_order", "add_pwc", "add_pwl", "add_disc"}
\* a measure needs two valid trains on one interval (sorted; that is what the measures assume)
Measurable(i, j) == Live(i) /\ Live(j) /\ IsSorted(heap[i].sp) /\ IsSorted(heap[j].sp)
                    /\ heap[i].ts = heap[j].ts /\ heap[i].te = heap[j].te /\ heap[i].ts < heap[i].te
                    /\ \A d \in {i, j} : \A n \in 1..Len(heap[d].sp) : heap[d].ts <= heap[d].sp[n] /\ heap[d].sp[n] <= heap[d].te
Measure(fn, i, j) ==
   /\ Measurable(i, j) /\ Step([NoOp EXCEPT !.f = fn, !.d = i, !.s = j])
   /\ IF Compiled THEN UNCHANGED <<warned, printed, fellback>>
      ELSE /\ printed' = IF warned THEN printed ELSE printed + 1
           /\ warned' = TRUE
           /\ fellback' = (fellback \/ ~warned)
   /\ UNCHANGED heap
Disable == /\ Step([NoOp EXCEPT !.f = "disable"]) /\ warned' = TRUE /\ UNCHANGED <<heap, printed, fellback>>
Next == \/ \E d \in Ids, sp \in Seqs, form \in {"pair", "scalar"}, sorted \in BOOLEAN : New(d, sp, form, sorted)
        \/ \E d \in Ids : SortOp(d)
        \/ \E d, s \in Ids : Copy(d, s)
        \/ \E d \in Ids, k \in 1..MaxLen, v \in Vals : Write(d, k, v)
        \/ \E fn \in Fns, i, j \in Ids : Measure(fn, i, j)
        \/ Disable
Spec == Init /\ [][Next]_vars
----------------------------------------------------------------------------
WarnOnce == printed <= 1 /\ (Compiled => printed = 0)
WarnIffNeeded == (printed = 1) = fellback
PrintedImpliesWarned == printed = 1 => warned
SortedAfterSort == [][op'.f = "sort" => IsSorted(heap'[op'.d].sp)]_vars
SortKeepsMultiset == [][op'.f = "sort" => SameMultiset(heap[op'.d].sp, heap'[op'.d].sp)]_vars
SortIdempotent == \A d \in Ids : Live(d) /\ IsSorted(heap[d].sp) => SortUp(heap[d].sp) = heap[d].sp
CopyIsEqual == [][op'.f = "copy" => heap'[op'.d] = heap[op'.s]]_vars
OnlyTargetChanges == [][\A d \in Ids : d # op'.d => heap'[d] = heap[d]]_vars
MeasuresLeaveTrains == [][op'.f \in Fns => heap' = heap]_vars
ScalarEdge == [][(op'.f = "new" /\ op'.form = "scalar") => heap'[op'.d].ts = 0]_vars
NonEmpty(d) == IF heap[d].sp = <<>> THEN <<heap[d].ts, heap[d].te>> ELSE heap[d].sp
NonEmptyView == \A d \in Ids : Live(d) => Len(NonEmpty(d)) >= 1 /\ (heap[d].sp # <<>> => NonEmpty(d) = heap[d].sp)
TransExport == PrintT(ToJson([k |-> "otrans", pre |-> heap, op |-> op', post |-> heap',
                              warned |-> warned, printed |-> printed' - printed, warned2 |-> warned',
                              ne |-> [d \in Ids |-> IF heap'[d].live THEN
                                        (IF heap'[d].sp = <<>> THEN <<heap'[d].ts, heap'[d].te>> ELSE heap'[d].sp) ELSE <<>>]]))
=============================================================================

----------------------------- MODULE MultiTrace -----------------------------
(* Trace validation (code -> spec) at the session level: a seeded driver calls the public entry points
   on lists that are larger than the enumeration bound of Multi.tla (more trains, more spikes, longer
   recording), records Call / Return, and TLC computes for every recorded call what the specification
   (Multi!Eval: pair generation, recursive halving with the transcribed adds, pooled sums, filter ...)
   prescribes.  One TLC run handles a batch; the harness compares the recorded return values with the
   values printed here.  The keyword setting (MRTS4, TAU4, RIFlag) is fixed per batch. *)
EXTENDS Multi, IOUtils
Traces == JsonDeserialize(IOEnv.TRACE_FILE)
NoTrains == {<<>>}
VARIABLES tid
tvars == <<vars, tid>>
ToSeq(x) == [k \in 1..Len(x) |-> x[k]]
TrainsOf(t) == [k \in 1..Len(t.tr) |-> ToSeq(t.tr[k])]
CallOf(t) == [fn |-> t.call.fn, idx |-> ToSeq(t.call.idx), iv |-> t.call.iv, thr |-> t.call.thr, norm |-> t.call.norm]
TInit == /\ tid \in 1..Len(Traces)
         /\ tr = TrainsOf(Traces[tid]) /\ call = CallOf(Traces[tid]) /\ res = NoRes
TNext == /\ res.t = "none" /\ res' = Eval(call) /\ UNCHANGED <<tr, call, tid>>
TSpec == TInit /\ [][TNext]_tvars
Expected == Done => PrintT(ToJson([k |-> "expected", id |-> Traces[tid].id, res |-> res]))
=============================================================================

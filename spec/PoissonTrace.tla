---------------------------- MODULE PoissonTrace ----------------------------
(* Trace validation (code -> spec) for spikes.py:generate_poisson_spikes (163-192) and
   merge_spike_trains on arbitrary float data, under the RANK ABSTRACTION: every time that occurs
   in a recorded call (edges, spike times) is replaced by its rank in the sorted set of distinct
   values -- an order isomorphism, exact for < and = -- and TLC checks the order-structural part
   of the specification on the ranks.
     Poisson(T0, T1): SOME strictly increasing train inside [T0, T1) carrying the edges T0, T1
                      (scalar interval form: T0 = 0)
     Merge(trains)  : the sorted multiset union, edges of the first train
   One TLC run validates a whole batch: tid is chosen in TInit, `rej` is raised when the logged
   return is not a possible result of the spec action. *)
EXTENDS Integers, Sequences, FiniteSets, TLC, Json, IOUtils, SequencesExt
Traces == JsonDeserialize(IOEnv.TRACE_FILE)
VARIABLES tid, pc, rej
vars == <<tid, pc, rej>>
Tr == Traces[tid]
ToSeq(x) == [k \in 1..Len(x) |-> x[k]]
TInit == tid \in 1..Len(Traces) /\ pc = "call" /\ rej = FALSE
\* ---- the spec actions as predicates on (call arguments, returned value), all in rank space
StrictInc(s) == \A i \in 1..(Len(s)-1) : s[i] < s[i+1]
PoissonPost(c, r) ==
   /\ r.ts = c.t0 /\ r.te = c.t1                          \* carries the requested edges
   /\ StrictInc(ToSeq(r.sp))                              \* sorted, no repeated time
   /\ \A i \in 1..Len(r.sp) : c.t0 <= r.sp[i] /\ r.sp[i] < c.t1      \* inside [T0, T1)
CountIn(s, v) == Cardinality({i \in 1..Len(s) : s[i] = v})
RECURSIVE SumCounts(_,_,_)
SumCounts(l, v, k) == IF k > Len(l) THEN 0 ELSE CountIn(l[k].sp, v) + SumCounts(l, v, k+1)
MergePost(c, r) ==
   /\ r.ts = c.trains[1].ts /\ r.te = c.trains[1].te
   /\ \A i \in 1..(Len(r.sp)-1) : r.sp[i] <= r.sp[i+1]
   /\ \A v \in 0..c.maxrank : CountIn(r.sp, v) = SumCounts(c.trains, v, 1)
Accept == IF Tr.fn = "poisson" THEN PoissonPost(Tr.call, Tr.ret) ELSE MergePost(Tr.call, Tr.ret)
Return == /\ pc = "call"
          /\ IF Accept THEN pc' = "done" /\ rej' = FALSE ELSE pc' = "rejected" /\ rej' = TRUE
          /\ UNCHANGED tid
TNext == Return
TSpec == TInit /\ [][TNext]_vars
NotRejected == ~rej => TRUE
Verdict == pc # "call" => PrintT(ToJson([k |-> "verdict", id |-> Tr.id, accepted |-> ~rej]))
=============================================================================
